"""N1, second half: statements, loops, calls and the standard-library model on top of sa/absint.Interp.

Loops are summarised with a ghost iteration counter K >= 0: a variable whose value changes by the same constant c on every
path of one iteration is represented as v0 + c*K at the loop head (verified by re-executing the body once from that head
state); every other variable written in the body is havocked within its type range, keeping constant bounds that are
re-established by the body (Houdini over a small candidate set).  The exit state is the head state with the negated
condition.  Nothing is executed: all values are linear forms over symbols."""
import re

from .absint import (Interp, State, Frame, Flow, Ptr, Span, Obj, Opt, Struct, UNK, Unknown, Unsupported, type_range, is_duration,
                     duration_ratio, array_len, MAX_STATES, MAX_INLINE_DEPTH)
from .build import AnalysisBroken
from .lin import Lin, as_lin
from .prog import int_type

INT64_MAX = (1 << 63) - 1


def _meth(c):
    return c.split('::')[-1]


class Analyzer(Interp):
    def __init__(self, prog, **kw):
        super().__init__(prog, **kw)
        self.recording = True
        self.param_pairs = kw.get('param_pairs') or {}
        self.contracts = {}            # qname -> callable(an, fn, call node, state, frame, arg values) -> [(state, value)] (summaries)
        self.max_depth = MAX_INLINE_DEPTH
        self.max_states = MAX_STATES
        self.call_stack = []
        self.loop_notes = []
        self._gcache = {}
        self.watch = None              # predicate(callee qname): log (fn, node, callee, arg values, state copy) at each such call
        self.calls = []
        self.watch_index = None        # predicate(buffer id): log every index into such a buffer with the state at that point
        self.index_log = []
        self.watch_access = None       # predicate(buffer id): log (offset, count) of every access to such a buffer
        self.alloc_limit = None        # callable(analyzer, state) -> Lin: reserve/resize amounts must not exceed it (kind 'alloc')
        self.access_log = []
        self.wrap_fns = None           # predicate(function qname): unsigned + - * << in such functions must provably not wrap
        self.return_hook = None        # callable(analyzer, fn, return node, state, frame) before a return expression is evaluated
        self._gbusy = set()

    # ---- sizes of objects whose address is taken ---------------------------------------------------------------
    ABI_SIZES = {'in_addr': 4, 'struct in_addr': 4, 'in6_addr': 16, 'struct in6_addr': 16, 'sockaddr_in': 16, 'sockaddr_in6': 28,
                 'sockaddr_storage': 128, 'sockaddr': 16, 'timeval': 16}     # x86-64 Linux ABI (frozen table)

    def sizeof(self, t):
        t = (t or '').replace('const ', '').strip()
        it = int_type(t)
        if it is not None:
            return max(1, it[0] // 8)
        if t in self.ABI_SIZES:
            return self.ABI_SIZES[t]
        m = re.match(r'std::array<(.*), (\d+)>$', t)
        if m and self.sizeof(m.group(1)) is not None:
            return self.sizeof(m.group(1)) * int(m.group(2))
        m = re.match(r'(.*)\[(\d+)\]$', t)
        if m and self.sizeof(m.group(1).strip()) is not None:
            return self.sizeof(m.group(1).strip()) * int(m.group(2))
        return None

    def ev_unary(self, fn, n, st, fr):
        nd = fn.nodes[n]
        if nd.get('op') == '&':
            c = fn.kids(n)[0]
            inner = fn.strip(c, casts=False)
            if fn.nodes[inner]['k'] in ('DeclRefExpr', 'MemberExpr'):
                key = self.lkey(fn, c, fr)
                cur = st.env.get(key) if key is not None else None
                if isinstance(cur, Obj):
                    return [(st, Ptr(cur.buf, 0))]
                sz = self.sizeof(fn.nodes[inner].get('t'))
                if key is not None:
                    b = 'addr_%s' % '_'.join(str(x) for x in key[-2:])
                    if sz is not None:
                        st.lens[b] = Lin.const(sz)      # byte view of the object
                    else:
                        st.lens.pop(b, None)
                    st.env.pop(key, None)               # may be written through the pointer
                    self.kill_prefix(st, key)
                    return [(st, Ptr(b, 0))]
        return super().ev_unary(fn, n, st, fr)

    def ev_cast(self, fn, n, st, fr):
        nd = fn.nodes[n]
        if nd.get('ck') == 'BitCast':
            out = []
            for s, v in self.ev(fn, fn.kids(n)[0], st, fr):
                if isinstance(v, Ptr) and v.buf.startswith('addr_'):
                    out.append((s, v))                  # byte-sized view already
                else:
                    out += [(s, v) if False else x for x in [self._bitcast(fn, n, s, v)]]
            return out
        return super().ev_cast(fn, n, st, fr)

    def _bitcast(self, fn, n, s, v):
        ft = fn.nodes[fn.kids(n)[0]].get('t', '') or ''
        t = fn.nodes[n].get('t') or ''
        bytey = lambda x: any(b in x for b in ('char', 'unsigned char', 'signed char', 'std::byte', 'void'))
        return (s, v if isinstance(v, Ptr) and bytey(ft) and bytey(t) else UNK)

    def global_value(self, q):
        """Value of a namespace-scope constant whose initialiser folds to a constant in this interpreter (durations included)."""
        if q in self._gcache:
            return self._gcache[q]
        g = self.P.globals.get(q)
        val = None
        if g is not None and (g.get('const') or g.get('constexpr')) and g.get('init') is not None and g['init'] >= 0 and q not in self._gbusy:
            from .prog import Fn
            self._gbusy.add(q)
            try:
                pf = Fn({'q': q, 'file': g.get('file', ''), 'line': g.get('line', 0), 'end': g.get('line', 0), 'nodes': g['nodes'], 'body': g['init'], 'params': []}, None)
                res = self.silent(lambda: self.ev(pf, g['init'], State(), Frame(pf, 0)))
                if len(res) == 1 and isinstance(res[0][1], Lin) and res[0][1].is_const():
                    val = res[0][1]
            finally:
                self._gbusy.discard(q)
        self._gcache[q] = val
        return val

    def ev(self, fn, n, st, fr):
        if n is not None and n >= 0:
            nd = fn.nodes[n]
            if nd['k'] == 'DeclRefExpr' and nd.get('g') and 'cv' not in nd and nd.get('q'):
                gv = self.global_value(nd['q'])
                if gv is not None:
                    return [(st, gv)]
            if nd['k'] == 'InitListExpr':
                rec = self.P.records.get((nd.get('t') or '').replace('const ', '').strip())
                if rec is not None:
                    out = []
                    names = [f_['n'] for f_ in rec.get('fields', [])]
                    for s, vals in self.evs(fn, fn.kids(n), st, fr):
                        out.append((s, Struct({names[i]: v for i, v in enumerate(vals) if i < len(names)})))
                    return out
        return super().ev(fn, n, st, fr)

    def access(self, fn, node, st, buf, off, count, what):
        if self.recording and self.watch_access is not None and self.watch_access(buf):
            self.access_log.append({'fn': fn, 'node': node, 'buf': buf, 'off': as_lin(off), 'count': as_lin(count), 'what': what, 'stack': list(self.call_stack)})
        return super().access(fn, node, st, buf, off, count, what)

    def index(self, fn, n, st, base, idx, t, what='index'):
        if self.recording and self.watch_access is not None and isinstance(base, Span) and self.watch_access(base.buf) and isinstance(idx, Lin):
            self.access_log.append({'fn': fn, 'node': n, 'buf': base.buf, 'off': as_lin(base.off) + idx, 'count': Lin.const(1), 'what': what, 'stack': list(self.call_stack)})
        if self.recording and self.watch_index is not None:
            buf = getattr(base, 'buf', None)
            if buf is not None and self.watch_index(buf):
                off = getattr(base, 'off', 0)
                self.index_log.append({'fn': fn, 'node': n, 'buf': buf, 'idx': (as_lin(off) + idx) if isinstance(idx, Lin) else None, 'state': st.copy(),
                                       'stack': list(self.call_stack)})
        return super().index(fn, n, st, base, idx, t, what)

    def arith(self, fn, n, st, op, a, b, t):
        if self.wrap_fns is not None and self.recording and op in ('+', '-', '*', '<<') and isinstance(a, Lin) and isinstance(b, Lin) and self.wrap_fns(fn.q):
            rng = type_range(t)
            if rng and rng[0] == 0:
                exact = a + b if op == '+' else a - b if op == '-' else (a * b) if op == '*' else (a.scale(1 << int(b.c)) if b.is_const() and 0 <= b.c < 63 else None)
                self.oblige('wrap', fn, n, st, [None] if exact is None else [-exact, exact - rng[1]],
                            'unsigned `%s` does not wrap around (the mathematical result fits %s)' % (op, t))
        r = super().arith(fn, n, st, op, a, b, t)
        if op == '^' and isinstance(a, Lin) and isinstance(b, Lin) and isinstance(r, Lin):
            self.fact(st, ('xor', fn.nodes[n].get('l'), a, b, r))
        return r

    # ---- obligation recording can be switched off for probe runs ---------------------------------------------
    def oblige(self, kind, fn, node, st, checks, desc):
        if not self.recording:
            for e in checks:
                if e is None or not st.cons.entails_le(e):
                    return False
            return True
        ok = super().oblige(kind, fn, node, st, checks, desc)
        self.obls[-1].stack = list(self.call_stack)
        return ok

    # ---- entry -----------------------------------------------------------------------------------------------------
    def run(self, fn, pairs=None, pre=None, this_fields=None):
        """Analyse fn with unconstrained parameters.  pairs: {ptr param name: length param name}.  pre(an, st, fr, params):
        optional callback adding preconditions.  Returns list of (state, return value)."""
        st = State()
        fr = Frame(fn, 0)
        pvals = {}
        pairs = pairs or {}
        for p in fn.params:
            key = ('v', fr.id, p['d'])
            t = p.get('t', '')
            if p['n'] in pairs:
                continue
            v = self.fresh_for_type(st, t.replace('&', '').strip(), p['n'])
            if not isinstance(v, Unknown):
                st.env[key] = v
            pvals[p['n']] = v
        for pn, ln in pairs.items():
            p = [x for x in fn.params if x['n'] == pn][0]
            buf = 'buf_' + pn
            lv = pvals.get(ln)
            st.lens[buf] = lv if isinstance(lv, Lin) else self.fresh_len(st)
            st.env[('v', fr.id, p['d'])] = Ptr(buf, 0)
            pvals[pn] = st.env[('v', fr.id, p['d'])]
        if pre is not None:
            pre(self, st, fr, pvals)
        self.param_values = [pvals.get(p['n']) for p in fn.params]
        self.call_stack = [fn.name]
        flow = self.exec_fn(fn, st, fr)
        return flow

    def exec_fn(self, fn, st, fr):
        roots = list(fn.d.get('inits', []))
        states = [st]
        for r in roots:
            nxt = []
            for s in states:
                nxt += [s2 for s2, _v in self.ev(fn, r, s, fr)]
            states = nxt
        fl = self.exec(fn, fn.body, states, fr)
        for s in fl.normal:
            fr.returns.append((s, UNK))
        return fr.returns

    # ---- state set maintenance -----------------------------------------------------------------------------------------
    def prune(self, states):
        out = [s for s in states if not s.dead and not s.cons.bottom]
        if len(out) > self.max_states:
            # merge the tail pairwise
            while len(out) > self.max_states:
                a = out.pop()
                b = out.pop()
                out.append(self.join(a, b))
        return out

    def join(self, a, b):
        s = State()
        for k, va in a.env.items():
            vb = b.env.get(k)
            if vb is None:
                continue
            if isinstance(va, Lin) and isinstance(vb, Lin) and va == vb:
                s.env[k] = va
            elif isinstance(va, Ptr) and isinstance(vb, Ptr) and va.buf == vb.buf and va.off == vb.off:
                s.env[k] = va
            elif isinstance(va, (Obj, Span)) and repr(va) == repr(vb):
                s.env[k] = va
            elif isinstance(va, Lin) and isinstance(vb, Lin):
                z = self.fresh(s, 'j')
                la, lb = self.tight_bound(a, va, False), self.tight_bound(b, vb, False)
                ha, hb = self.tight_bound(a, va, True), self.tight_bound(b, vb, True)
                if la is not None and lb is not None:
                    s.cons.add_le(Lin.const(min(la, lb)) - z)
                if ha is not None and hb is not None:
                    s.cons.add_le(z - max(ha, hb))
                s.env[k] = z
        for k, la in a.lens.items():
            lb = b.lens.get(k)
            if lb is not None and la == lb:
                s.lens[k] = la
            elif lb is not None:
                s.lens[k] = self.fresh_len(s)
        # orderings between a merged value and the other integer values, when they hold on both sides
        merged = [k for k, v in s.env.items() if isinstance(v, Lin) and isinstance(a.env.get(k), Lin) and a.env[k] != b.env.get(k)]
        if merged and len(merged) <= 64:
            from .lin import _cone
            others = [k for k, v in s.env.items() if isinstance(v, Lin) and isinstance(a.env.get(k), Lin) and isinstance(b.env.get(k), Lin)]
            for k in merged:
                za, zb, z = a.env[k], b.env[k], s.env[k]
                rel = set(za.syms()) | set(zb.syms())
                for c_ in _cone(a.cons.cs, za.syms()) + _cone(b.cons.cs, zb.syms()):
                    rel |= c_.syms()
                triples = [(a.env[k2], b.env[k2], s.env[k2]) for k2 in others if k2 != k]
                # container lengths take part in the orderings too (offset <= size survives a merge)
                triples += [(a.lens[b_], b.lens[b_], s.lens[b_]) for b_ in s.lens
                            if isinstance(a.lens.get(b_), Lin) and isinstance(b.lens.get(b_), Lin) and isinstance(s.lens[b_], Lin) and not s.lens[b_].is_const()]
                for wa, wb, w in triples:
                    if wa.is_const() and wb.is_const() or not ((wa.syms() | wb.syms()) & rel):
                        continue
                    if a.cons.entails_le(za - wa) and b.cons.entails_le(zb - wb):
                        s.cons.add_le(z - w)
                    if a.cons.entails_le(wa - za) and b.cons.entails_le(wb - zb):
                        s.cons.add_le(w - z)
        s.mem = {k_: v_ for k_, v_ in a.mem.items() if b.mem.get(k_) == v_}
        s.facts = a.facts if a.facts == b.facts else ()
        for c in a.cons.cs:
            if b.cons.entails_le(c):
                s.cons.add_le(c)
        for c in b.cons.cs:
            if a.cons.entails_le(c):
                s.cons.add_le(c)
        return s

    def tight_bound(self, st, v, upper):
        """A constant c with st |- v <= c (upper) or st |- v >= c, the best among the constants that occur in the constraints
        related to v (bisection over that finite candidate list: entailment is monotone in c); None when none is entailed."""
        if v.is_const():
            return int(v.c)
        from .lin import _cone
        sign = 1 if upper else -1
        e = v.scale(sign)                 # find a small c with e <= c
        cands = {0, 1, -1}
        for c in _cone(st.cons.cs, v.syms()):
            k = int(c.c)
            cands |= {k, -k, k + 1, k - 1, -k + 1, -k - 1}
        for t_, co in v.t.items():
            pass
        # bounds of v itself scale with its coefficients: add products with small coefficients
        coefs = {abs(int(x)) for x in v.t.values() if x.denominator == 1 and abs(x) <= 4096}
        cands |= {k * m for k in list(cands) for m in coefs if abs(k) < (1 << 40)}
        cands = sorted(cands)
        if not st.cons.entails_le(e - cands[-1]):
            return None
        lo, hi = -1, len(cands) - 1       # invariant: entails e <= cands[hi]
        while hi - lo > 1:
            mid = (lo + hi) // 2
            if st.cons.entails_le(e - cands[mid]):
                hi = mid
            else:
                lo = mid
        return sign * cands[hi]

    # ---- statements -------------------------------------------------------------------------------------------------------
    def exec(self, fn, n, states, fr):
        fl = Flow()
        states = self.prune(states)
        if n is None or n < 0 or not states:
            fl.normal = states
            return fl
        nd = fn.nodes[n]
        k = nd['k']
        if k == 'CompoundStmt':
            cur = states
            for c in fn.kids(n):
                f2 = self.exec(fn, c, cur, fr)
                fl.brk += f2.brk
                fl.cont += f2.cont
                cur = f2.normal
                if not cur:
                    break
            fl.normal = cur
            return fl
        if k == 'DeclStmt':
            cur = states
            for c in fn.kids(n):
                cur = self.exec_decl(fn, c, cur, fr)
            fl.normal = cur
            return fl
        if k == 'IfStmt':
            cur = states
            for role in ('init', 'condvar'):
                if nd.get(role) is not None and nd[role] >= 0:
                    cur = self.exec(fn, nd[role], cur, fr).normal
            tr, fa = [], []
            for s in cur:
                t, f = self.cond(fn, nd['cond'], s, fr)
                tr += t
                fa += f
            ft = self.exec(fn, nd.get('then'), tr, fr)
            if nd.get('else') is not None and nd['else'] >= 0:
                fe = self.exec(fn, nd['else'], fa, fr)
            else:
                fe = Flow(fa)
            fl.normal = ft.normal + fe.normal
            fl.brk = ft.brk + fe.brk
            fl.cont = ft.cont + fe.cont
            return fl
        if k in ('ForStmt', 'WhileStmt', 'DoStmt', 'CXXForRangeStmt'):
            return self.exec_loop(fn, n, states, fr)
        if k == 'ReturnStmt':
            ks = fn.kids(n)
            for s in states:
                if ks and self.return_hook is not None and self.recording:
                    self.return_hook(self, fn, n, s, fr)
                if ks:
                    for s2, v in self.ev(fn, ks[0], s, fr):
                        s2.ret_site = n
                        fr.returns.append((s2, v))
                else:
                    s.ret_site = n
                    fr.returns.append((s, UNK))
            return fl
        if k == 'BreakStmt':
            fl.brk = states
            return fl
        if k == 'ContinueStmt':
            fl.cont = states
            return fl
        if k == 'NullStmt':
            fl.normal = states
            return fl
        if k == 'SwitchStmt':
            return self.exec_switch(fn, n, states, fr)
        if k in ('CaseStmt', 'DefaultStmt'):
            sub = nd.get('sub') if k == 'CaseStmt' else (fn.kids(n)[-1] if fn.kids(n) else None)
            return self.exec(fn, sub, states, fr)
        if k == 'CXXTryStmt':
            # exceptions end a path; handlers are analysed from an unconstrained copy of the entry state
            f1 = self.exec(fn, nd['try'], [s.copy() for s in states], fr)
            fl.normal, fl.brk, fl.cont = f1.normal, f1.brk, f1.cont
            for h in nd.get('handlers', []):
                hb = fn.nodes[h].get('body')
                f2 = self.exec(fn, hb, [self.havoc_all(s) for s in states], fr)
                fl.normal += f2.normal
                fl.brk += f2.brk
                fl.cont += f2.cont
            return fl
        if k in ('GotoStmt', 'LabelStmt', 'IndirectGotoStmt', 'CoreturnStmt'):
            raise Unsupported('%s at %s' % (k, fn.loc(n)))
        # expression statement
        out = []
        for s in states:
            out += [s2 for s2, _v in self.ev(fn, n, s, fr)]
        fl.normal = out
        return fl

    def havoc_all(self, s):
        h = State()
        h.lens = dict(s.lens)
        for k, v in s.env.items():
            if isinstance(v, (Ptr, Obj, Span)):
                h.env[k] = v
        for c in s.cons.cs:
            # keep facts about buffer lengths only
            pass
        return h

    def exec_decl(self, fn, n, states, fr):
        nd = fn.nodes[n]
        if nd['k'] != 'VarDecl':
            return states
        out = []
        t = nd.get('t', '')
        key = ('s', nd['d']) if nd.get('static') else ('v', fr.id, nd['d'])
        for s in states:
            if 'init' in nd and nd['init'] is not None and nd['init'] >= 0:
                for s2, v in self.ev(fn, nd['init'], s, fr):
                    self.bind(fn, nd, key, s2, fr, v, t)
                    out.append(s2)
            else:
                self.bind(fn, nd, key, s, fr, self.fresh_for_type(s, t.replace('const ', ''), nd.get('n', 'v')), t)
                out.append(s)
        return out

    def bind(self, fn, nd, key, s, fr, v, t):
        tt = t.replace('const ', '').strip()
        if tt.endswith('&') or tt.endswith('&&'):
            # a reference: alias the referent when it has a key, else hold the value
            init = nd.get('init')
            rk = self.lkey(fn, init, fr) if init is not None and init >= 0 else None
            if rk is not None:
                fr.__dict__.setdefault('alias', {})[nd['d']] = rk
                return
        if nd.get('bindings'):
            # structured binding: components unknown
            for b in nd['bindings']:
                bv = self.fresh_for_type(s, b.get('t', '').replace('const ', ''), b.get('n', 'b'))
                if not isinstance(bv, Unknown):
                    s.env[('v', fr.id, b['d'])] = bv
            return
        if isinstance(v, Lin) and type_range(tt):
            v = self.fit(s, v, tt, nd.get('n', 'v'))
        if isinstance(v, Unknown) or v is None:
            v = self.fresh_for_type(s, tt, nd.get('n', 'v'))
        if isinstance(v, Obj) and array_len(tt) is None and not tt.startswith(('std::vector', 'std::basic_string<', 'std::array')):
            pass
        if isinstance(v, Unknown):
            s.env.pop(key, None)
        else:
            if isinstance(v, Obj):
                # copying a container copies its length, not its identity
                nb = 'buf_%s%d' % (re.sub(r'[^A-Za-z0-9_]', '_', nd.get('n', 'v'))[:12], next(self._sym))
                s.lens[nb] = s.lens.get(v.buf, self.fresh_len(s))
                v = Obj(nb)
            s.env[key] = v

    def lkey(self, fn, node, frame):
        n = fn.strip(node, casts=False)
        nd = fn.nodes[n]
        if nd['k'] == 'DeclRefExpr' and nd.get('d') in frame.__dict__.get('alias', {}):
            return frame.alias[nd['d']]
        return super().lkey(fn, node, frame)

    # ---- switch -------------------------------------------------------------------------------------------------------------
    def exec_switch(self, fn, n, states, fr):
        nd = fn.nodes[n]
        fl = Flow()
        body = nd.get('body')
        stmts = fn.kids(body) if body is not None and fn.nodes[body]['k'] == 'CompoundStmt' else [body]
        # positions of labels
        labels = []
        for idx, st_ in enumerate(stmts):
            x = st_
            while fn.nodes[x]['k'] in ('CaseStmt', 'DefaultStmt'):
                xd = fn.nodes[x]
                if xd['k'] == 'CaseStmt':
                    v = None
                    for j in fn.walk(xd['lhs']):
                        if 'cv' in fn.nodes[j]:
                            v = int(fn.nodes[j]['cv'])
                            break
                    labels.append((idx, v))
                    x = xd['sub']
                else:
                    labels.append((idx, 'default'))
                    ks = fn.kids(x)
                    if not ks:
                        break
                    x = ks[-1]
        entry = []
        for s in states:
            for s2, v in self.ev(fn, nd['cond'], s, fr):
                entry.append((s2, v))
        seen_vals = [v for _i, v in labels if v != 'default']
        for idx, lv in labels:
            cur = []
            for s, v in entry:
                s2 = s.copy()
                if isinstance(v, Lin):
                    if lv == 'default':
                        # none of the case values: not expressible as one convex set; keep unconstrained
                        pass
                    else:
                        s2.cons.add_eq(v - lv)
                        if s2.cons.is_unsat():
                            continue
                cur.append(s2)
            for st_ in stmts[idx:]:
                if not cur:
                    break
                f2 = self.exec(fn, st_, cur, fr)
                fl.normal += f2.brk
                fl.cont += f2.cont
                cur = f2.normal
            fl.normal += cur
        if not any(v == 'default' for _i, v in labels):
            fl.normal += [s for s, _v in entry]
        fl.normal = self.prune(fl.normal)
        return fl

    # ---- loops ----------------------------------------------------------------------------------------------------------------
    def loop_parts(self, fn, n):
        nd = fn.nodes[n]
        return nd.get('init'), nd.get('cond'), nd.get('inc'), nd.get('body')

    def one_iteration(self, fn, n, head, fr, do_first=False):
        """From head state: evaluate the condition (true side), the body and the increment.
        Returns (end states at the next head, exit states through the condition, break states)."""
        nd = fn.nodes[n]
        k = nd['k']
        init, cond, inc, body = self.loop_parts(fn, n)
        ends, exits, brks = [], [], []
        if k == 'DoStmt':
            fb = self.exec(fn, body, [head], fr)
            brks += fb.brk
            after = fb.normal + fb.cont
            for s in after:
                t, f = self.cond(fn, cond, s, fr)
                ends += t
                exits += f
            return ends, exits, brks
        if cond is not None and cond >= 0:
            tr, fa = self.cond(fn, cond, head, fr)
        else:
            tr, fa = [head], []
        exits += fa
        fb = self.exec(fn, body, tr, fr)
        brks += fb.brk
        after = fb.normal + fb.cont
        if inc is not None and inc >= 0:
            nxt = []
            for s in after:
                nxt += [s2 for s2, _v in self.ev(fn, inc, s, fr)]
            after = nxt
        ends = after
        return ends, exits, brks

    def silent(self, thunk, fr=None):
        """Run thunk without recording obligations, throws or (for frame fr) return states."""
        rec = self.recording
        self.recording = False
        nthrow = len(self.throws)
        nret = len(fr.returns) if fr is not None else 0
        try:
            return thunk()
        finally:
            self.recording = rec
            del self.throws[nthrow:]
            if fr is not None:
                del fr.returns[nret:]

    @staticmethod
    def _num(v):
        """Numeric view of a value: a pointer is its offset."""
        if isinstance(v, Ptr):
            return v.off
        return v if isinstance(v, Lin) else None

    def exec_loop(self, fn, n, states, fr):
        nd = fn.nodes[n]
        k = nd['k']
        fl = Flow()
        if k == 'CXXForRangeStmt':
            return self.exec_range_for(fn, n, states, fr)
        init, cond, inc, body = self.loop_parts(fn, n)
        if init is not None and init >= 0:
            states = self.exec(fn, init, states, fr).normal
        states = self.prune(states)
        if not states:
            return fl
        h0 = states[0]
        for s in states[1:]:
            h0 = self.join(h0, s)
        # --- probe: one iteration from the entry state, to learn which keys change and by how much
        ends, _ex, _br = self.silent(lambda: self.one_iteration(fn, n, h0.copy(), fr), fr)
        changed = set()
        len_changed = set()

        def note_changes(base, ends_):
            grew = False
            for e in ends_:
                for key, v0 in base.env.items():
                    v1 = e.env.get(key)
                    if (v1 is None or repr(v1) != repr(v0)) and key not in changed:
                        changed.add(key)
                        grew = True
                for b_, l0 in base.lens.items():
                    if b_ in e.lens and e.lens[b_] != l0 and b_ not in len_changed:
                        len_changed.add(b_)
                        grew = True
            return grew
        note_changes(h0, ends)
        strides = {}
        for key in changed:
            cs = set()
            v0 = self._num(h0.env[key])
            for e in ends:
                v1 = self._num(e.env.get(key))
                if v0 is not None and v1 is not None and (v1 - v0).is_const():
                    cs.add((v1 - v0).c)
                else:
                    cs.add(None)
            if len(cs) == 1 and None not in cs:
                strides[key] = list(cs)[0]
        # --- candidate invariants over the non-strided integer keys (Houdini): each is a function env -> [e <= 0]
        cands = None
        probe_ends = ends
        head = None
        for _round in range(10):
            free = [key for key in changed if key not in strides and self._num(h0.env.get(key)) is not None]
            if cands is None or any(c['keys'] - set(free) for c in cands):
                cands = self.loop_candidates(h0, free, probe_ends, fn, n, fr)
            head = h0.copy()
            K = self.fresh(head, 'K', None, lo=0)
            for key in changed:
                v0 = h0.env[key]
                t = self.key_type(fn, key, fr)
                if key in strides:
                    c = strides[key]
                    if isinstance(v0, Ptr):
                        head.env[key] = Ptr(v0.buf, v0.off + K.scale(c))
                    else:
                        head.env[key] = v0 + K.scale(c)
                        r = type_range(t) if t else None
                        if r:
                            head.cons.add_le(Lin.const(r[0]) - head.env[key])
                            head.cons.add_le(head.env[key] - r[1])
                elif isinstance(v0, Ptr):
                    head.env[key] = Ptr(v0.buf, self.fresh(head, 'off'))
                else:
                    nv = self.fresh_for_type(head, t, 'h') if t else UNK
                    if isinstance(nv, Unknown):
                        head.env.pop(key, None)
                    else:
                        head.env[key] = nv
            for b_ in len_changed:
                head.lens[b_] = self.fresh_len(head)
            for c in cands:
                vals = c['f'](lambda key_: self._num(head.env.get(key_)), head)
                if vals is None:
                    c['dead'] = True
                    continue
                for e_ in vals:
                    head.cons.add_le(e_)
            cands = [c for c in cands if not c.get('dead')]
            ends, exits, brks = self.silent(lambda: self.one_iteration(fn, n, head.copy(), fr), fr)
            redo = False
            for key, c in list(strides.items()):
                hv = self._num(head.env[key])
                for e in ends:
                    v1 = self._num(e.env.get(key))
                    if v1 is None or not e.cons.entails_eq(v1 - hv - c):
                        del strides[key]
                        redo = True
                        break
            keep = []
            for c in cands:
                ok = True
                for e in ends:
                    vals = c['f'](lambda key_: self._num(e.env.get(key_)), e)
                    if vals is None or not all(e.cons.entails_le(x) for x in vals):
                        ok = False
                        break
                if ok:
                    keep.append(c)
                else:
                    redo = True
            cands = keep
            if note_changes(head, ends):
                redo = True
                cands = None
            if not redo:
                break
        else:
            raise AnalysisBroken('loop summary did not stabilise at %s' % fn.loc(n))
        self.termination(fn, n, head, ends, fr)
        if self.trace:
            self.notes.append('loop %s: strides %s invariants %s' % (fn.loc(n), {str(k_[-1]): str(v_) for k_, v_ in strides.items()}, [c['name'] for c in cands]))
        self.loop_notes.append({'site': fn.loc(n), 'strided': len(strides), 'invariants': [c['name'] for c in cands]})
        # --- final, recorded run from the verified head
        ends, exits, brks = self.one_iteration(fn, n, head.copy(), fr)
        fl.normal = self.prune(exits + brks)
        return fl

    def _live_bufs(self, st):
        out = set()
        for v in st.env.values():
            b = getattr(v, 'buf', None)
            if b is not None:
                out.add(b)
        return out

    def loop_candidates(self, h0, free, probe_ends, fn=None, n=None, fr=None):
        """Candidate loop invariants relating the loop-entry values (Lin over entry symbols) of the freely changing keys to
        their values at a later head: constant bounds, monotonicity, conserved sums and differences of pairs.
        Pre-filtered on the probe iteration; inductiveness is checked by the caller."""
        cands = []

        def name(key):
            return str(key[-1]) if not (key[0] == 'v' and len(key) == 3) else 'v%s' % key[2]
        entry = {key: self._num(h0.env[key]) for key in free}
        for key in free:
            v0 = entry[key]
            cb = self.const_bounds(h0, v0)
            if cb:
                cands.append({'name': '%d <= %s <= %d' % (cb[0], name(key), cb[1]), 'keys': {key},
                              'f': (lambda get, st_=None, key=key, cb=cb: None if get(key) is None else [Lin.const(cb[0]) - get(key), get(key) - cb[1]])})
            cands.append({'name': '%s non-decreasing' % name(key), 'keys': {key},
                          'f': (lambda get, st_=None, key=key, v0=v0: None if get(key) is None else [v0 - get(key)])})
            cands.append({'name': '%s non-increasing' % name(key), 'keys': {key},
                          'f': (lambda get, st_=None, key=key, v0=v0: None if get(key) is None else [get(key) - v0])})
        for key in free:
            for b_, ln_ in h0.lens.items():
                if isinstance(ln_, Lin) and not ln_.is_const() and b_ in self._live_bufs(h0):
                    cands.append({'name': '%s <= len(%s)' % (name(key), b_), 'keys': {key},
                                  'f': (lambda get, st_=None, key=key, ln_=ln_: None if get(key) is None else [get(key) - ln_])})
        # the loop condition itself, weakened to its non-strict form: `a < b` gives the candidate a <= b (so that on exit a == b
        # when the stride is one, and the counter never overshoots its bound)
        if fn is not None and fn.nodes[n].get('cond') is not None and fn.nodes[n]['cond'] >= 0:
            from .match import comparison
            stack = [fn.nodes[n]['cond']]
            conj = []
            while stack:
                x = fn.strip(stack.pop(), casts=False)
                if fn.nodes[x]['k'] == 'BinaryOperator' and fn.nodes[x].get('op') == '&&':
                    stack += fn.kids(x)
                else:
                    conj.append(x)
            for cj in conj:
                cmpn = comparison(fn, cj)
                if cmpn is None or cmpn[0] not in ('<', '<=', '>', '>='):
                    continue
                op, a_, b_ = cmpn

                def fc(get, st_, a_=a_, b_=b_, op=op):
                    res = self.silent(lambda: self.evs(fn, [a_, b_], st_.copy(), fr), fr)
                    if len(res) != 1:
                        return None
                    va, vb = (self._num(x) for x in res[0][1])
                    if va is None or vb is None:
                        return None
                    return [va - vb] if op in ('<', '<=') else [vb - va]
                cands.append({'name': 'condition `%s` non-strictly' % fn.text(cj)[:40], 'keys': set(), 'f': fc})
        for i, k1 in enumerate(free):
            for k2 in free[i + 1:]:
                for sign, nm in ((1, '+'), (-1, '-')):
                    tot = entry[k1] + entry[k2].scale(sign)

                    def f(get, st_=None, k1=k1, k2=k2, sign=sign, tot=tot):
                        a, b = get(k1), get(k2)
                        if a is None or b is None:
                            return None
                        d = a + b.scale(sign) - tot
                        return [d, -d]
                    cands.append({'name': '%s %s %s conserved' % (name(k1), nm, name(k2)), 'keys': {k1, k2}, 'f': f})
        keep = []
        for c in cands:
            # base case: the candidate must hold on entry to the loop
            v0s = c['f'](lambda key_: self._num(h0.env.get(key_)), h0)
            if v0s is None or not all(h0.cons.entails_le(x) for x in v0s):
                continue
            ok = True
            for e in probe_ends:
                vals = c['f'](lambda key_: self._num(e.env.get(key_)), e)
                if vals is None or not all(e.cons.entails_le(x) for x in vals):
                    ok = False
                    break
            if ok:
                keep.append(c)
        return keep

    def termination(self, fn, n, head, ends, fr):
        """R-LOOP: some conjunct `a < b` (<=, >, >=, !=) of the loop condition has a distance that every iteration shrinks by at
        least 1 (checked on every path from the generalised head back to the head); the conjunct itself bounds it below."""
        from .match import comparison
        from .absint import Obligation
        if not self.recording:
            return
        cond = fn.nodes[n].get('cond')
        proved, why = False, 'no condition' if cond is None or cond < 0 else 'no conjunct of the condition compares quantities whose distance shrinks on every iteration'
        conj = []
        if cond is not None and cond >= 0:
            stack = [cond]
            while stack:
                x = fn.strip(stack.pop(), casts=False)
                if fn.nodes[x]['k'] == 'BinaryOperator' and fn.nodes[x].get('op') == '&&':
                    stack += fn.kids(x)
                else:
                    conj.append(x)

        def ranks_in(state, a, b, op):
            res = self.evs(fn, [a, b], state.copy(), fr)
            if len(res) != 1:
                return None
            va, vb = (self._num(x) for x in res[0][1])
            if va is None or vb is None:
                return None
            return {'<': [vb - va], '<=': [vb - va], '>': [va - vb], '>=': [va - vb], '!=': [vb - va, va - vb]}.get(op)

        def work():
            for cj in conj:
                c = comparison(fn, cj)
                if c is None:
                    continue
                op, a, b = c
                rh = ranks_in(head, a, b, op)
                if not rh:
                    continue
                for idx, r_head in enumerate(rh):
                    ok = True
                    for e in ends:
                        re_ = ranks_in(e, a, b, op)
                        if not re_ or not e.cons.entails_le(re_[idx] - r_head + 1):
                            ok = False
                            break
                        if op == '!=' and not e.cons.entails_le(-re_[idx]):
                            ok = False      # must not step over the target
                            break
                    if ok and op == '!=' and not head.cons.entails_le(-r_head):
                        ok = False
                    if ok:
                        return 'condition `%s`: the distance %r shrinks by at least 1 on each of %d path(s) through the body' % (fn.text(cj)[:60], r_head, len(ends))
            return None
        res = self.silent(work, fr)
        if res:
            proved, why = True, res
        o = Obligation('loop', fn, n, 'loop terminates: ' + why, proved, None if proved else {'need': ['a ranking function'], 'known': []})
        o.stack = list(self.call_stack)
        self.obls.append(o)

    def key_type(self, fn, key, fr):
        """Declared type of the variable / field behind an environment key."""
        cache = fn.__dict__.setdefault('_keytypes', None)
        if cache is None:
            cache = {}
            for nd in fn.nodes:
                if nd['k'] in ('VarDecl',):
                    cache[('d', nd['d'])] = nd.get('t')
                if nd['k'] == 'MemberExpr' and nd.get('mk') == 'Field':
                    cache[('f', nd['n'])] = nd.get('ft') or nd.get('t')
                if nd['k'] == 'DeclRefExpr' and nd.get('dk') in ('ParmVar', 'Var'):
                    cache.setdefault(('d', nd['d']), nd.get('t'))
            fn._keytypes = cache
        if key[0] == 'v' and len(key) == 3:
            t = cache.get(('d', key[2]))
            return t.replace('const ', '') if t else None
        last = key[-1]
        if isinstance(last, str) and last.startswith('.'):
            t = cache.get(('f', last[1:]))
            return t.replace('const ', '') if t else None
        return None

    def exec_range_for(self, fn, n, states, fr):
        nd = fn.nodes[n]
        fl = Flow()
        var = nd.get('var')
        vn = fn.nodes[var]
        out = []
        for s in states:
            for s2, rv in self.ev(fn, nd['range'], s, fr):
                out.append((s2, rv))
        if not out:
            return fl
        h0 = out[0][0]
        for s, _ in out[1:]:
            h0 = self.join(h0, s)
        rv = out[0][1]
        elem_t = vn.get('t', '').replace('const ', '').replace('&', '').strip()

        def body_once(head):
            key = ('v', fr.id, vn['d'])
            ev_ = self.fresh_for_type(head, elem_t, vn.get('n', 'e'))
            if not isinstance(ev_, Unknown):
                head.env[key] = ev_
            fr.__dict__.setdefault('alias', {}).pop(vn['d'], None)
            for b in vn.get('bindings', []) or []:
                bv = self.fresh_for_type(head, b.get('t', '').replace('const ', ''), b.get('n', 'b'))
                if not isinstance(bv, Unknown):
                    head.env[('v', fr.id, b['d'])] = bv
            fb = self.exec(fn, nd['body'], [head], fr)
            return fb.normal + fb.cont, fb.brk
        changed = set()
        lenc = set()
        for _round in range(8):
            head = h0.copy()
            for key in changed:
                t = self.key_type(fn, key, fr)
                nv = self.fresh_for_type(head, t, 'h') if t else UNK
                if isinstance(h0.env.get(key), Ptr):
                    nv = Ptr(h0.env[key].buf, self.fresh(head, 'off'))
                if isinstance(nv, Unknown):
                    head.env.pop(key, None)
                else:
                    head.env[key] = nv
            for b in lenc:
                head.lens[b] = self.fresh_len(head)
            ends, _b = self.silent(lambda: body_once(head.copy()), fr)
            grew = False
            for e in ends:
                for key, v0 in head.env.items():
                    if key[0] == 'v' and len(key) == 3 and key[2] == vn['d']:
                        continue
                    v1 = e.env.get(key)
                    if (v1 is None or repr(v1) != repr(v0)) and key not in changed:
                        changed.add(key)
                        grew = True
                for b, l0 in head.lens.items():
                    if b in e.lens and e.lens[b] != l0 and b not in lenc:
                        lenc.add(b)
                        grew = True
            if not grew:
                break
        else:
            raise AnalysisBroken('range-for summary did not stabilise at %s' % fn.loc(n))
        if self.recording:
            from .absint import Obligation
            o = Obligation('loop', fn, n, 'loop terminates: range-for visits each element of a finite range once', True, None)
            o.stack = list(self.call_stack)
            self.obls.append(o)
        ends, brks = body_once(head.copy())
        fl.normal = self.prune([head] + brks)
        return fl

    # ---- calls ----------------------------------------------------------------------------------------------------------------
    def as_ptr(self, st, v):
        if isinstance(v, Ptr):
            return v
        if isinstance(v, Obj):
            return Ptr(v.buf, 0)
        if isinstance(v, Span):
            return Ptr(v.buf, v.off)
        return None

    def view_of(self, st, v):
        """(buf, off, length) of a container-like value."""
        if isinstance(v, Span):
            return v.buf, v.off, v.length
        if isinstance(v, Obj):
            ln = st.lens.get(v.buf)
            if ln is None:
                ln = self.fresh_len(st)
                st.lens[v.buf] = ln
            return v.buf, Lin.const(0), ln
        return None

    def ev_call(self, fn, n, st, fr):
        nd = fn.nodes[n]
        k = nd['k']
        c = nd.get('callee') or ''
        ks = fn.kids(n)
        t = nd.get('t')
        # ----- member calls and operators on modelled objects
        if k == 'CXXMemberCallExpr':
            me = fn.strip(ks[0], casts=False)
            objn = fn.kids(me)[0] if fn.kids(me) else None
            args = ks[1:]
            return self.member_call(fn, n, st, fr, c, objn, args, t)
        if k == 'CXXOperatorCallExpr':
            return self.operator_call(fn, n, st, fr, c, nd.get('op'), ks[1:], t)
        args = ks[1:]
        # ----- free functions: std model
        m = _meth(c)
        if c in ('memcpy', 'std::memcpy', 'memmove', 'std::memmove'):
            out = []
            for s, (d, sr, cnt) in self.evs(fn, args[:3], st, fr):
                dp, sp = self.as_ptr(s, d), self.as_ptr(s, sr)
                if isinstance(cnt, Lin):
                    for p_, what in ((dp, 'memcpy destination'), (sp, 'memcpy source')):
                        if p_ is not None:
                            self.access(fn, n, s, p_.buf, p_.off, cnt, what)
                        else:
                            self.oblige('bound', fn, n, s, [None], what + ' through an untracked pointer')
                else:
                    self.oblige('bound', fn, n, s, [None], 'memcpy with an untracked length')
                self.fact(s, ('copy', fn.nodes[n].get('l'), dp, sp, cnt))
                out.append((s, UNK))
            return out
        if c in ('std::copy_n',):
            out = []
            for s, (f_, cnt, o_) in self.evs(fn, args[:3], st, fr):
                fp, op_ = self.as_ptr(s, f_), self.as_ptr(s, o_)
                if isinstance(cnt, Lin):
                    for p_, what in ((fp, 'copy_n source'), (op_, 'copy_n destination')):
                        if p_ is not None:
                            self.access(fn, n, s, p_.buf, p_.off, cnt, what)
                        else:
                            self.oblige('bound', fn, n, s, [None], what + ' through an untracked iterator')
                else:
                    self.oblige('bound', fn, n, s, [None], 'copy_n with an untracked count')
                self.fact(s, ('copy', fn.nodes[n].get('l'), op_, fp, cnt))
                out.append((s, UNK))
            return out
        if c in ('std::copy', 'std::fill', 'std::equal', 'std::fill_n', 'std::all_of', 'std::any_of', 'std::find', 'std::find_if', 'std::remove_if',
                 'std::sort', 'std::reverse', 'std::transform', 'std::count', 'std::count_if', 'std::none_of', 'std::min_element', 'std::max_element'):
            out = []
            for s, vals in self.evs(fn, args, st, fr):
                if len(vals) >= 2:
                    a, b = self.as_ptr(s, vals[0]), self.as_ptr(s, vals[1])
                    if a is not None and b is not None and a.buf == b.buf:
                        cnt = b.off - a.off
                        self.access(fn, n, s, a.buf, a.off, cnt, '%s input range' % m)
                        if c in ('std::copy', 'std::equal', 'std::transform') and len(vals) >= 3:
                            o_ = self.as_ptr(s, vals[2])
                            if o_ is not None:
                                self.access(fn, n, s, o_.buf, o_.off, cnt, '%s second range' % m)
                            elif c != 'std::transform' and not isinstance(vals[2], Unknown) or c == 'std::copy' and 'back_insert' not in fn.text(args[2]):
                                if isinstance(vals[2], Unknown) and 'insert' in fn.text(args[2]):
                                    pass
                                else:
                                    self.oblige('bound', fn, n, s, [None], '%s second range through an untracked iterator' % m)
                    elif c in ('std::copy', 'std::equal', 'std::fill', 'std::fill_n'):
                        if c == 'std::fill_n' and a is not None and isinstance(vals[1], Lin):
                            self.access(fn, n, s, a.buf, a.off, vals[1], 'fill_n range')
                        else:
                            self.oblige('bound', fn, n, s, [None], '%s over an untracked range' % m)
                res = self.fresh_for_type(s, t, 'r') if t and t != 'void' else UNK
                if c == 'std::equal' and len(vals) >= 3:
                    a_, b_, o_ = self.as_ptr(s, vals[0]), self.as_ptr(s, vals[1]), self.as_ptr(s, vals[2])
                    self.fact(s, ('equal', fn.nodes[n].get('l'), a_, o_, (b_.off - a_.off) if a_ is not None and b_ is not None and a_.buf == b_.buf else None, res))
                if c == 'std::copy' and len(vals) >= 3:
                    a_, b_, o_ = self.as_ptr(s, vals[0]), self.as_ptr(s, vals[1]), self.as_ptr(s, vals[2])
                    self.fact(s, ('copy', fn.nodes[n].get('l'), o_, a_, (b_.off - a_.off) if a_ is not None and b_ is not None and a_.buf == b_.buf else None))
                if c in ('std::copy',) and len(vals) >= 3 and isinstance(self.as_ptr(s, vals[2]), Ptr) and len(vals) >= 2:
                    a, b, o_ = self.as_ptr(s, vals[0]), self.as_ptr(s, vals[1]), self.as_ptr(s, vals[2])
                    if a is not None and b is not None:
                        res = Ptr(o_.buf, o_.off + (b.off - a.off))
                out.append((s, res))
            return out
        if c in ('std::min', 'std::max'):
            out = []
            flat = []
            for a in args:
                an = fn.strip(a)
                inner = an
                while fn.nodes[inner]['k'] in ('CXXStdInitializerListExpr', 'MaterializeTemporaryExpr', 'ImplicitCastExpr') and fn.kids(inner):
                    inner = fn.strip(fn.kids(inner)[0])
                if fn.nodes[inner]['k'] == 'InitListExpr':
                    flat += fn.kids(inner)
                else:
                    flat.append(a)
            for s, vals in self.evs(fn, flat, st, fr):
                if all(isinstance(v, Lin) for v in vals) and vals:
                    # the result is one of the operands: split (keeps the domain convex per state)
                    for i_, cand in enumerate(vals):
                        s2 = s.copy()
                        for j_, other in enumerate(vals):
                            if i_ == j_:
                                continue
                            if c == 'std::min':
                                s2.cons.add_le(cand - other)
                            else:
                                s2.cons.add_le(other - cand)
                        if not s2.cons.is_unsat():
                            out.append((s2, cand))
                else:
                    out.append((s, self.fresh_for_type(s, t, 'mm')))
            return out or [(st, UNK)]
        if c in ('std::move', 'std::forward', 'std::as_const', 'std::addressof'):
            res = self.ev(fn, args[0], st, fr)
            if c == 'std::addressof':
                return [(s, UNK) for s, _ in res]
            return res
        if c in ('std::begin', 'std::cbegin', 'std::data'):
            return [(s, self.as_ptr(s, v) or UNK) for s, v in self.ev(fn, args[0], st, fr)]
        if c in ('std::end', 'std::cend'):
            out = []
            for s, v in self.ev(fn, args[0], st, fr):
                vw = self.view_of(s, v)
                out.append((s, Ptr(vw[0], vw[1] + vw[2]) if vw else UNK))
            return out
        if c in ('std::size', 'std::ssize'):
            out = []
            for s, v in self.ev(fn, args[0], st, fr):
                vw = self.view_of(s, v)
                out.append((s, vw[2] if vw else self.fresh(s, 'sz', 'unsigned long')))
            return out
        mz = re.match(r'std::chrono::duration<.*>::(zero|max|min)$', c)
        if mz and not args:
            return [(st, Lin.const({'zero': 0, 'max': INT64_MAX, 'min': -INT64_MAX - 1}[mz.group(1)]))]
        if c == 'std::chrono::duration_cast':
            out = []
            src_t = fn.nodes[args[0]].get('t') if args else None
            for s, v in self.ev(fn, args[0], st, fr):
                out.append((s, self.convert_duration(fn, n, s, v, src_t, t)))
            return out
        if c in ('std::to_string', 'std::isdigit', 'isdigit', 'std::isxdigit', 'std::tolower', 'std::toupper', 'std::isspace', 'std::iscntrl', 'std::strlen', 'strlen',
                 'std::abs', 'std::swap', 'std::get', 'std::get_if', 'std::holds_alternative', 'std::visit', 'std::make_pair', 'std::make_shared', 'std::make_unique',
                 'std::distance', 'std::next', 'std::prev', 'std::advance', 'std::countl_zero', 'std::popcount', 'htons', 'ntohs', 'htonl', 'ntohl'):
            out = []
            for s, vals in self.evs(fn, args, st, fr):
                res = self.fresh_for_type(s, t, m) if t and t != 'void' else UNK
                if c in ('std::next', 'std::prev') and vals and isinstance(vals[0], Ptr):
                    d = vals[1] if len(vals) > 1 and isinstance(vals[1], Lin) else Lin.const(1)
                    res = Ptr(vals[0].buf, vals[0].off + d if c == 'std::next' else vals[0].off - d)
                if c == 'std::distance' and len(vals) == 2 and isinstance(vals[0], Ptr) and isinstance(vals[1], Ptr) and vals[0].buf == vals[1].buf:
                    res = vals[1].off - vals[0].off
                out.append((s, res))
            return out
        # ----- repository functions: summaries, then inlining
        if c in self.contracts:
            out = []
            for s, vals in self.evs(fn, args, st, fr):
                out += self.contracts[c](self, fn, n, s, fr, vals)
            return out
        callee = self.P.by_q.get(c)
        if callee and nd.get('crepo') and fr.depth < self.max_depth and (self.inline_ok is None or self.inline_ok(c)):
            cands = [f for f in callee if len(f.params) == nd.get('cnparams', len(f.params))] or callee
            return self.inline(fn, n, st, fr, cands[0], args)
        # ----- unknown callee: arguments evaluated for their obligations; result unknown; objects passed by non-const reference havocked
        out = []
        for s, vals in self.evs(fn, args, st, fr):
            pts = nd.get('pt') or []
            for i_, a in enumerate(args):
                pt = pts[i_] if i_ < len(pts) else ''
                if pt.endswith('&') and not pt.startswith('const ') or pt.endswith('*') and not pt.startswith('const '):
                    key = self.lkey(fn, a, fr)
                    if key is not None:
                        s.env.pop(key, None)
                        self.kill_prefix(s, key)
            self.fact(s, ('call', fn.nodes[n].get('l'), c, tuple(vals)))
            self.log_call(fn, n, c, vals, s)
            out.append((s, self.fresh_for_type(s, t, m or 'call') if t and t != 'void' else UNK))
        return out

    def inline(self, fn, n, st, fr, callee, args, this_key=None):
        out = []
        for s, vals in self.evs(fn, args, st, fr):
            self.log_call(fn, n, callee.q, vals, s)
            f2 = Frame(callee, fr.depth + 1, this=this_key)
            for p, a, v in zip(callee.params, args, vals):
                pt = p.get('t', '')
                key = ('v', f2.id, p['d'])
                if (pt.endswith('&') or pt.endswith('&&')) and not pt.startswith('const '):
                    ak = self.lkey(fn, a, fr)
                    if ak is not None:
                        f2.__dict__.setdefault('alias', {})[p['d']] = ak
                        continue
                if isinstance(v, Lin):
                    v = self.fit(s, v, pt.replace('const ', '').replace('&', '').strip(), p.get('n', 'p'))
                if isinstance(v, Unknown):
                    v = self.fresh_for_type(s, pt.replace('const ', '').replace('&', '').strip(), p.get('n', 'p'))
                if not isinstance(v, Unknown):
                    s.env[key] = v
            self.call_stack.append(callee.name)
            try:
                rets = self.exec_fn(callee, s, f2)
            finally:
                self.call_stack.pop()
            rt = fn.nodes[n].get('t')
            for rs, rv in rets:
                if isinstance(rv, Unknown) and rt and rt != 'void':
                    rv = self.fresh_for_type(rs, rt.replace('const ', ''), 'ret')
                out.append((rs, rv))
        return self._cap(out)

    def _cap(self, pairs):
        live = [(s, v) for s, v in pairs if not s.cons.bottom]
        if len(live) <= self.max_states:
            return live
        # merge states with equal return value representation
        merged = {}
        for s, v in live:
            merged.setdefault(repr(v) if not isinstance(v, Lin) else 'lin', []).append((s, v))
        out = []
        for grp in merged.values():
            s0, v0 = grp[0]
            for s1, v1 in grp[1:]:
                if isinstance(v0, Lin) and isinstance(v1, Lin) and v0 != v1:
                    js = self.join(s0, s1)
                    z = self.fresh(js, 'r')
                    v0 = z
                    s0 = js
                else:
                    s0 = self.join(s0, s1)
            out.append((s0, v0))
        return out

    def fact(self, st, f):
        st.facts = st.facts + (f,)

    def alloc_check(self, fn, n, st, amount, what):
        """When alloc_limit is set (callable(analyzer, state) -> Lin): a container is sized (reserve / resize) only to an
        amount bounded by it — e.g. by the length of the input being decoded, so that a length word read from the input
        cannot request memory the input does not back (std::bad_alloc / std::length_error)."""
        if self.alloc_limit is None:
            return
        lim = self.alloc_limit(self, st)
        if lim is None:
            return
        if isinstance(amount, Lin):
            self.oblige('alloc', fn, n, st, [amount - lim], '%s(n): n is bounded by the input length' % what)
        else:
            self.oblige('alloc', fn, n, st, [None], '%s(n): untracked amount' % what)

    def log_call(self, fn, n, c, vals, st, recv=None):
        if self.recording and self.watch is not None and self.watch(c):
            self.calls.append({'fn': fn, 'node': n, 'callee': c, 'args': list(vals), 'state': st.copy(), 'recv': recv, 'stack': list(self.call_stack)})

    # ---- std::chrono ---------------------------------------------------------------------------------------------------------------
    def convert_duration(self, fn, n, s, v, src_t, dst_t):
        r1, r2 = duration_ratio(src_t), duration_ratio(dst_t)
        if not isinstance(v, Lin) or r1 is None or r2 is None:
            return self.fresh(s, 'dur', 'long')
        num = r1[0] * r2[1]
        den = r1[1] * r2[0]
        from math import gcd
        g = gcd(num, den)
        num, den = num // g, den // g
        if den == 1:
            if num != 1:
                self.oblige('chrono', fn, n, s, [v.scale(num) - INT64_MAX, (-v).scale(num) - INT64_MAX],
                            'conversion to a finer period multiplies by %d without overflowing 64 bits' % num)
            return self.fit(s, v.scale(num), 'long', 'dur')
        if num == 1:
            # truncating division
            q = self.fresh(s, 'dq', 'long')
            if s.cons.entails_le(-v):
                s.cons.add_le(q.scale(den) - v)
                s.cons.add_le(v - q.scale(den) - (den - 1))
                s.cons.add_le(-q)
            return q
        return self.fresh(s, 'dur', 'long')

    # ---- constructors ----------------------------------------------------------------------------------------------------------------
    def ev_construct(self, fn, n, st, fr):
        nd = fn.nodes[n]
        c = nd.get('callee') or ''
        t = nd.get('t') or ''
        ks = fn.kids(n)
        tt = t.replace('const ', '').strip()
        if (nd.get('copymove') or nd.get('elidable')) and len(ks) == 1:
            return self.ev(fn, ks[0], st, fr)
        if is_duration(tt):
            if not ks:
                return [(st, Lin.const(0))]
            out = []
            src_t = fn.nodes[ks[0]].get('t')
            for s, v in self.ev(fn, ks[0], st, fr):
                if is_duration(src_t or ''):
                    out.append((s, self.convert_duration(fn, n, s, v, src_t, tt)))
                else:
                    out.append((s, self.fit(s, v, 'long', 'dur') if isinstance(v, Lin) else self.fresh(s, 'dur', 'long')))
            return out
        if tt.startswith('std::chrono::time_point<'):
            out = []
            for s, vals in self.evs(fn, ks, st, fr):
                if ks and is_duration(fn.nodes[ks[0]].get('t') or '') and isinstance(vals[0], Lin):
                    m = re.search(r'std::chrono::duration<[^,]+, (std::ratio<\d+, \d+>)>', tt)
                    dst = 'std::chrono::duration<long, %s>' % m.group(1) if m else None
                    if dst:
                        self.convert_duration(fn, n, s, vals[0], fn.nodes[ks[0]].get('t'), dst)
                out.append((s, UNK))
            return out
        if tt.startswith('std::optional<'):
            out = []
            for s, vals in self.evs(fn, ks, st, fr):
                if not ks or 'nullopt' in (fn.nodes[ks[0]].get('t') or ''):
                    out.append((s, Opt(False, UNK)))
                else:
                    out.append((s, Opt(True, vals[0])))
            return out
        if tt.startswith(('std::span<', 'std::basic_string_view<')):
            out = []
            for s, vals in self.evs(fn, ks, st, fr):
                if len(vals) == 1:
                    vw = self.view_of(s, vals[0])
                    if vw:
                        out.append((s, Span(*vw)))
                        continue
                    p_ = self.as_ptr(s, vals[0])
                    out.append((s, self.fresh_for_type(s, tt, 'view')))
                    continue
                if len(vals) == 2:
                    p_ = self.as_ptr(s, vals[0])
                    if p_ is not None and isinstance(vals[1], Lin):
                        self.access(fn, n, s, p_.buf, p_.off, vals[1], 'view over [ptr, ptr+n)')
                        out.append((s, Span(p_.buf, p_.off, vals[1])))
                        continue
                    q_ = self.as_ptr(s, vals[1])
                    if p_ is not None and q_ is not None and p_.buf == q_.buf:
                        self.access(fn, n, s, p_.buf, p_.off, q_.off - p_.off, 'view over [first, last)')
                        out.append((s, Span(p_.buf, p_.off, q_.off - p_.off)))
                        continue
                out.append((s, self.fresh_for_type(s, tt, 'view')))
            return out
        if tt.startswith(('std::vector<', 'std::basic_string<')):
            out = []
            for s, vals in self.evs(fn, [x for x in ks if fn.nodes[x]['k'] != 'CXXDefaultArgExpr'], st, fr):
                b = 'buf_c%d' % next(self._sym)
                if not vals:
                    s.lens[b] = Lin.const(0)
                elif len(vals) >= 2 and self.as_ptr(s, vals[0]) is not None and self.as_ptr(s, vals[1]) is not None and \
                        self.as_ptr(s, vals[0]).buf == self.as_ptr(s, vals[1]).buf:
                    p_, q_ = self.as_ptr(s, vals[0]), self.as_ptr(s, vals[1])
                    self.access(fn, n, s, p_.buf, p_.off, q_.off - p_.off, 'range constructor [first, last)')
                    s.lens[b] = q_.off - p_.off
                elif len(vals) >= 2 and self.as_ptr(s, vals[0]) is not None and isinstance(vals[1], Lin) and not isinstance(vals[0], Lin):
                    p_ = self.as_ptr(s, vals[0])
                    self.access(fn, n, s, p_.buf, p_.off, vals[1], 'constructor from (ptr, n)')
                    s.lens[b] = vals[1]
                elif isinstance(vals[0], Lin):
                    s.lens[b] = vals[0]          # vector(n) / string(n, ch)
                elif len(vals) == 1 and self.view_of(s, vals[0]):
                    s.lens[b] = self.view_of(s, vals[0])[2]
                elif len(vals) >= 2 and (isinstance(vals[0], Ptr) or isinstance(vals[1], Ptr)):
                    self.oblige('bound', fn, n, s, [None], 'range constructor over iterators of different / untracked buffers')
                    s.lens[b] = self.fresh_len(s)
                else:
                    s.lens[b] = self.fresh_len(s)
                out.append((s, Obj(b)))
            return out
        n_arr = array_len(tt)
        if n_arr is not None:
            out = []
            for s, _vals in self.evs(fn, ks, st, fr):
                b = 'arr_c%d' % next(self._sym)
                s.lens[b] = Lin.const(n_arr)
                out.append((s, Obj(b)))
            return out
        # user records: field-wise unknown; arguments evaluated for obligations; repo constructors are not inlined
        out = []
        for s, _vals in self.evs(fn, ks, st, fr):
            if int_type(tt) is not None and _vals and isinstance(_vals[0], Lin):
                out.append((s, self.fit(s, _vals[0], tt, 'c')))
            else:
                out.append((s, self.fresh_for_type(s, tt, 'obj')))
        return out

    # ---- member calls ------------------------------------------------------------------------------------------------------------------
    def member_call(self, fn, n, st, fr, c, objn, args, t):
        m = _meth(c)
        cls = fn.nodes[n].get('cls') or ''
        out = []
        is_container = cls in ('std::vector', 'std::basic_string', 'std::array', 'std::span', 'std::basic_string_view', 'std::deque')
        if is_duration(cls + '<') or cls == 'std::chrono::duration':
            for s, ov in self.ev(fn, objn, st, fr):
                if m == 'count':
                    out.append((s, ov if isinstance(ov, Lin) else self.fresh(s, 'cnt', 'long')))
                else:
                    out.append((s, self.fresh_for_type(s, t, m)))
            return out
        if cls == 'std::optional':
            for s, ov in self.ev(fn, objn, st, fr):
                for s2, _a in self.evs(fn, args, s, fr):
                    if m in ('value', 'operator*', 'operator->'):
                        v = ov.value if isinstance(ov, Opt) and not isinstance(ov.value, Unknown) else self.fresh_for_type(s2, t, 'optv')
                        out.append((s2, v))
                    elif m in ('has_value', 'operator bool'):
                        if isinstance(ov, Opt) and ov.has is not None:
                            out.append((s2, Lin.const(1 if ov.has else 0)))
                        else:
                            out.append((s2, self.fresh(s2, 'has', 'bool')))
                    elif m == 'value_or':
                        out.append((s2, self.fresh_for_type(s2, t, 'vo')))
                    else:
                        key = self.lkey(fn, objn, fr)
                        if key is not None and m in ('reset', 'emplace', 'operator='):
                            s2.env.pop(key, None)
                        out.append((s2, self.fresh_for_type(s2, t, m) if t and t != 'void' else UNK))
            return out
        if not is_container:
            callee = self.P.by_q.get(c)
            nd = fn.nodes[n]
            if c in self.contracts:
                for s, vals in self.evs(fn, args, st, fr):
                    out += self.contracts[c](self, fn, n, s, fr, vals)
                return out
            if callee and nd.get('crepo') and fr.depth < self.max_depth and (self.inline_ok is None or self.inline_ok(c)):
                cands = [f for f in callee if len(f.params) == nd.get('cnparams', len(f.params))] or callee
                tk = self.lkey(fn, objn, fr) if objn is not None else None
                if objn is not None and fn.nodes[fn.strip(objn)]['k'] == 'CXXThisExpr':
                    tk = ('this', fr.this if fr.this is not None else fr.id)
                if tk is None:
                    tk = ('tmp', next(self._sym))
                return self.inline_member(fn, n, st, fr, cands[0], args, tk)
            for s, _ov in (self.ev(fn, objn, st, fr) if objn is not None else [(st, UNK)]):
                for s2, _vals in self.evs(fn, args, s, fr):
                    self.log_call(fn, n, c, _vals, s2, recv=objn)
                    if not fn.nodes[n].get('cconst') and objn is not None:
                        key = self.lkey(fn, objn, fr)
                        if key is not None:
                            s2.env.pop(key, None)
                            self.kill_prefix(s2, key)
                    out.append((s2, self.fresh_for_type(s2, t, m) if t and t != 'void' else UNK))
            return out
        # ---- containers / views
        for s, ov in self.ev(fn, objn, st, fr):
            key = self.lkey(fn, objn, fr)
            if isinstance(ov, Unknown):
                ov = self.fresh_for_type(s, (fn.nodes[objn].get('t') or '').replace('const ', ''), 'cont')
                if key is not None and not isinstance(ov, Unknown):
                    s.env[key] = ov
            for s2, vals in self.evs(fn, [a for a in args if fn.nodes[a]['k'] != 'CXXDefaultArgExpr'], s, fr):
                vw = self.view_of(s2, ov)
                res = None
                if vw is None:
                    out.append((s2, self.fresh_for_type(s2, t, m) if t and t != 'void' else UNK))
                    continue
                buf, off, ln = vw
                if m in ('size', 'length', 'size_bytes'):
                    res = ln
                elif m == 'empty':
                    z = self.fresh(s2, 'emp', 'bool')
                    res = z
                    # empty() <=> len == 0 : expressed by splitting
                    s_t, s_f = s2.copy(), s2
                    s_t.cons.add_eq(ln)
                    s_f.cons.add_lt(-ln)
                    if not s_t.cons.is_unsat():
                        out.append((s_t, Lin.const(1)))
                    if not s_f.cons.is_unsat():
                        out.append((s_f, Lin.const(0)))
                    continue
                elif m in ('data', 'begin', 'cbegin', 'c_str'):
                    res = Ptr(buf, off)
                elif m in ('end', 'cend'):
                    res = Ptr(buf, off + ln)
                elif m in ('operator[]',):
                    res = self.index(fn, n, s2, Span(buf, off, ln), vals[0], t)
                elif m == 'at':
                    res = self.fresh_for_type(s2, t, 'elem')
                elif m in ('front',):
                    self.oblige('bound', fn, n, s2, [Lin.const(1) - ln], 'front() of a non-empty container')
                    res = self.fresh_for_type(s2, t, 'elem')
                elif m in ('back', 'pop_back'):
                    self.oblige('bound', fn, n, s2, [Lin.const(1) - ln], '%s() of a non-empty container' % m)
                    res = self.fresh_for_type(s2, t, 'elem') if m == 'back' else UNK
                    if m == 'pop_back' and isinstance(ov, Obj):
                        s2.lens[ov.buf] = ln - 1
                elif m in ('first', 'last', 'subspan') and len(vals) >= 1 and isinstance(vals[0], Lin):
                    if m == 'first':
                        self.oblige('bound', fn, n, s2, [-vals[0], vals[0] - ln], 'span.first(n) with n <= size()')
                        res = Span(buf, off, vals[0])
                    elif m == 'last':
                        self.oblige('bound', fn, n, s2, [-vals[0], vals[0] - ln], 'span.last(n) with n <= size()')
                        res = Span(buf, off + ln - vals[0], vals[0])
                    else:
                        self.oblige('bound', fn, n, s2, [-vals[0], vals[0] - ln], 'span.subspan(o) with o <= size()')
                        if len(vals) >= 2 and isinstance(vals[1], Lin):
                            self.oblige('bound', fn, n, s2, [vals[0] + vals[1] - ln], 'span.subspan(o, n) with o + n <= size()')
                            res = Span(buf, off + vals[0], vals[1])
                        else:
                            res = Span(buf, off + vals[0], ln - vals[0])
                elif m == 'rfind' and len(vals) == 2 and isinstance(vals[1], Lin) and vals[1] == Lin.const(0):
                    # s.rfind(x, 0) is 0 exactly when s starts with x (then size() >= strlen(x)), npos otherwise
                    np_ = self.as_ptr(s2, vals[0])
                    nl_ = s2.lens.get(np_.buf) if np_ is not None else None
                    is_arr = 'char[' in (fn.nodes[fn.strip(args[0])].get('t') or '')
                    nlen = nl_ - np_.off - 1 if nl_ is not None and nl_.is_const() and is_arr else Lin.const(0)
                    s_hit, s_miss = s2.copy(), s2
                    s_hit.cons.add_le(nlen - ln)
                    if not s_hit.cons.is_unsat():
                        out.append((s_hit, Lin.const(0)))
                    out.append((s_miss, Lin.const((1 << 64) - 1)))
                    continue
                elif m in ('substr',):
                    if vals and isinstance(vals[0], Lin):
                        self.oblige('range', fn, n, s2, [vals[0] - ln], 'substr(pos): pos <= size() (std::out_of_range otherwise)')
                    elif vals:
                        self.oblige('range', fn, n, s2, [None], 'substr(pos): untracked position')
                    nb = 'buf_s%d' % next(self._sym)
                    nl = self.fresh_len(s2)
                    s2.cons.add_le(nl - ln)
                    if len(vals) >= 2 and isinstance(vals[1], Lin):
                        s2.cons.add_le(nl - vals[1])
                    s2.lens[nb] = nl
                    res = Obj(nb) if 'string_view' not in (t or '') else Span(nb, 0, nl)
                elif m in ('resize',) and isinstance(ov, Obj) and vals and isinstance(vals[0], Lin):
                    self.alloc_check(fn, n, s2, vals[0], m)
                    s2.lens[ov.buf] = vals[0]
                    res = UNK
                elif m == 'clear' and isinstance(ov, Obj):
                    s2.lens[ov.buf] = Lin.const(0)
                    res = UNK
                elif m in ('push_back', 'emplace_back') and isinstance(ov, Obj):
                    s2.lens[ov.buf] = ln + 1
                    res = UNK
                elif m in ('assign',) and isinstance(ov, Obj):
                    p_ = self.as_ptr(s2, vals[0]) if vals else None
                    if len(vals) == 2 and p_ is not None and isinstance(vals[1], Lin):
                        self.access(fn, n, s2, p_.buf, p_.off, vals[1], 'assign(ptr, n) source')
                        s2.lens[ov.buf] = vals[1]
                    elif len(vals) == 2 and p_ is not None and self.as_ptr(s2, vals[1]) is not None and self.as_ptr(s2, vals[1]).buf == p_.buf:
                        q_ = self.as_ptr(s2, vals[1])
                        self.access(fn, n, s2, p_.buf, p_.off, q_.off - p_.off, 'assign(first, last) source')
                        s2.lens[ov.buf] = q_.off - p_.off
                    elif len(vals) == 2 and isinstance(vals[0], Lin):
                        s2.lens[ov.buf] = vals[0]
                    else:
                        if vals and (isinstance(vals[0], Ptr) or len(vals) > 1 and isinstance(vals[1], Ptr)):
                            self.oblige('bound', fn, n, s2, [None], 'assign over an untracked range')
                        s2.lens[ov.buf] = self.fresh_len(s2)
                    res = UNK
                elif m in ('insert', 'append', 'erase', 'operator+=', 'reserve', 'shrink_to_fit', 'swap', 'fill', 'remove_prefix', 'remove_suffix', 'emplace'):
                    if m == 'insert' and len(vals) == 3:
                        p_, q_ = self.as_ptr(s2, vals[1]), self.as_ptr(s2, vals[2])
                        if p_ is not None and q_ is not None and p_.buf == q_.buf:
                            self.access(fn, n, s2, p_.buf, p_.off, q_.off - p_.off, 'insert(pos, first, last) source')
                            if isinstance(ov, Obj):
                                s2.lens[ov.buf] = ln + (q_.off - p_.off)
                            out.append((s2, UNK))
                            continue
                    if m == 'append' and len(vals) == 2 and self.as_ptr(s2, vals[0]) is not None and isinstance(vals[1], Lin):
                        p_ = self.as_ptr(s2, vals[0])
                        self.access(fn, n, s2, p_.buf, p_.off, vals[1], 'append(ptr, n) source')
                    if m == 'reserve' and vals:
                        self.alloc_check(fn, n, s2, vals[0], m)
                    if isinstance(ov, Obj) and m not in ('reserve', 'fill', 'shrink_to_fit'):
                        s2.lens[ov.buf] = self.fresh_len(s2)
                    if isinstance(ov, Span) and key is not None and m in ('remove_prefix', 'remove_suffix'):
                        s2.env[key] = self.fresh_for_type(s2, 'std::span<x>', 'view')
                    res = UNK
                elif m in ('find', 'rfind', 'find_first_of', 'find_last_of', 'compare', 'starts_with', 'ends_with', 'count', 'contains', 'capacity', 'max_size'):
                    res = self.fresh_for_type(s2, t, m)
                else:
                    if not fn.nodes[n].get('cconst') and isinstance(ov, Obj):
                        s2.lens[ov.buf] = self.fresh_len(s2)
                    res = self.fresh_for_type(s2, t, m) if t and t != 'void' else UNK
                out.append((s2, res))
        return out

    def inline_member(self, fn, n, st, fr, callee, args, this_key):
        return self.inline(fn, n, st, fr, callee, args, this_key=this_key)

    # ---- overloaded operators ------------------------------------------------------------------------------------------------------------
    def operator_call(self, fn, n, st, fr, c, op, operands, t):
        nd = fn.nodes[n]
        cls = nd.get('cls') or ''
        out = []
        if op in ('<', '>', '<=', '>=', '==', '!=', '<=>'):
            tr, fa = self.cond(fn, n, st, fr)
            return [(s, Lin.const(1)) for s in tr] + [(s, Lin.const(0)) for s in fa]
        if op == '[]' and len(operands) == 2:
            for s, (b, i) in self.evs(fn, operands, st, fr):
                bt = (fn.nodes[fn.strip(operands[0])].get('t') or '')
                mb = re.match(r'(?:const )?std::bitset<(\d+)>', bt)
                if mb:
                    # std::bitset<N>::operator[](pos): undefined behaviour unless pos < N
                    if isinstance(i, Lin):
                        self.oblige('bound', fn, n, s, [-i, i - (int(mb.group(1)) - 1)], 'bitset<%s> index' % mb.group(1))
                    else:
                        self.oblige('bound', fn, n, s, [None], 'bitset<%s> index (untracked)' % mb.group(1))
                    out.append((s, self.fresh_for_type(s, 'bool', 'bit')))
                    continue
                if cls in ('std::map', 'std::unordered_map'):
                    out.append((s, self.fresh_for_type(s, t, 'elem')))
                    continue
                if isinstance(b, Unknown):
                    # a subscript on a container the analysis does not track cannot be shown in bounds
                    self.oblige('bound', fn, n, s, [None], 'subscript on an untracked container (%s)' % (cls or bt)[:40])
                    out.append((s, self.fresh_for_type(s, t, 'elem')))
                    continue
                vw = self.view_of(s, b)
                if vw:
                    out.append((s, self.index(fn, n, s, Span(*vw), i, t)))
                elif isinstance(b, Ptr):
                    out.append((s, self.index(fn, n, s, b, i, t)))
                else:
                    out.append((s, self.fresh_for_type(s, t, 'elem')))
            return out
        if op in ('*', '->') and len(operands) == 1:
            for s, v in self.ev(fn, operands[0], st, fr):
                if isinstance(v, Opt):
                    out.append((s, v.value if not isinstance(v.value, Unknown) else self.fresh_for_type(s, t, 'optv')))
                elif isinstance(v, Ptr):
                    self.access(fn, n, s, v.buf, v.off, 1, 'iterator dereference')
                    out.append((s, self.fresh_for_type(s, t, 'deref')))
                else:
                    out.append((s, self.fresh_for_type(s, t, 'deref')))
            return out
        if op in ('+', '-') and len(operands) == 2:
            for s, (a, b) in self.evs(fn, operands, st, fr):
                self.log_call(fn, n, c, [a, b], s)
                if isinstance(a, Ptr) and isinstance(b, Lin):
                    out.append((s, Ptr(a.buf, a.off + b if op == '+' else a.off - b)))
                elif isinstance(a, Ptr) and isinstance(b, Ptr) and op == '-' and a.buf == b.buf:
                    out.append((s, a.off - b.off))
                elif isinstance(a, Lin) and isinstance(b, Lin) and (is_duration(t or '') or int_type(t)):
                    out.append((s, self.fit(s, a + b if op == '+' else a - b, 'long' if is_duration(t or '') else t, 'dop')))
                else:
                    out.append((s, self.fresh_for_type(s, t, 'op')))
            return out
        if op in ('+=', '-=', '++', '--') and operands:
            for s, vals in self.evs(fn, operands, st, fr):
                a = vals[0]
                d = vals[1] if len(vals) > 1 and isinstance(vals[1], Lin) else Lin.const(1)
                sign = 1 if op in ('+=', '++') else -1
                nv = UNK
                if isinstance(a, Ptr) and isinstance(d, Lin):
                    nv = Ptr(a.buf, a.off + d.scale(sign))
                elif isinstance(a, Lin) and isinstance(d, Lin) and (is_duration(fn.nodes[operands[0]].get('t') or '') or int_type(fn.nodes[operands[0]].get('t'))):
                    nv = self.fit(s, a + d.scale(sign), 'long', 'dop')
                key = self.lkey(fn, operands[0], fr)
                if key is not None:
                    if isinstance(nv, Unknown):
                        s.env.pop(key, None)
                        self.kill_prefix(s, key)
                    else:
                        s.env[key] = nv
                out.append((s, a if nd.get('postfix') else nv))
            return out
        if op == '=' and len(operands) == 2:
            for s, v in self.ev(fn, operands[1], st, fr):
                for s2, _lv in self.ev_lhs(fn, operands[0], s, fr):
                    key = self.lkey(fn, operands[0], fr)
                    if key is not None:
                        self.kill_prefix(s2, key)
                        if isinstance(v, Obj):
                            nb = 'buf_a%d' % next(self._sym)
                            s2.lens[nb] = s2.lens.get(v.buf, self.fresh_len(s2))
                            s2.env[key] = Obj(nb)
                        elif isinstance(v, Unknown):
                            nv = self.fresh_for_type(s2, (fn.nodes[operands[0]].get('t') or '').replace('const ', ''), 'asg')
                            if isinstance(nv, Unknown):
                                s2.env.pop(key, None)
                            else:
                                s2.env[key] = nv
                        else:
                            s2.env[key] = v
                    out.append((s2, v))
            return out
        if op == '()':
            # lambda / std::function invocation: inline a local lambda, otherwise unknown
            callee = self.P.by_q.get(c)
            if callee and fr.depth < self.max_depth:
                return self.inline(fn, n, st, fr, callee[0], operands[1:])
        if op == '!' and operands:
            tr, fa = self.cond(fn, operands[0], st, fr)
            return [(s, Lin.const(0)) for s in tr] + [(s, Lin.const(1)) for s in fa]
        for s, _vals in self.evs(fn, operands, st, fr):
            out.append((s, self.fresh_for_type(s, t, 'op') if t and t != 'void' else UNK))
        return out

    # ---- conditions on modelled objects (extends Interp.cond) ------------------------------------------------------------------------------
    def cond(self, fn, n, st, fr):
        n1 = fn.strip(n, casts=False)
        nd = fn.nodes[n1]
        c = nd.get('callee') or ''
        if nd['k'] == 'CXXMemberCallExpr' and _meth(c) == 'empty' and (nd.get('cls') or '') in ('std::vector', 'std::basic_string', 'std::span', 'std::basic_string_view', 'std::array'):
            tr, fa = [], []
            for s, v in self.ev(fn, n1, st, fr):
                if isinstance(v, Lin) and v.is_const():
                    (tr if v.c != 0 else fa).append(s)
                else:
                    tr.append(s.copy())
                    fa.append(s)
            return tr, fa
        return super().cond(fn, n, st, fr)


def site_label(desc):
    """Name of the access at a site, free of symbol names: text before the first colon, else the first word."""
    lab = desc.split(':')[0] if ':' in desc else desc.split(' ')[0]
    return re.sub(r'[^A-Za-z0-9_.()\[\], +-]', '', lab)[:40].strip()


def summarize(an):
    """Aggregate obligations per site: a site is proved when every instance was proved."""
    sites = {}
    for o in an.obls:
        key = (o.fn.q, o.node, o.kind, site_label(o.desc))
        e = sites.setdefault(key, {'fn': o.fn, 'node': o.node, 'kind': o.kind, 'desc': o.desc, 'n': 0, 'failed': []})
        e['n'] += 1
        if not o.proved:
            e['failed'].append(o)
    return sites


def analyse(P, entries, inline=None, contracts=None, max_depth=None):
    """Run the interpreter from each entry (Fn, pairs, pre) and merge the per-site verdicts.
    Returns (sites, info): sites as summarize(); info has counts and the throw sites seen."""
    sites = {}
    info = {'entries': [], 'throws': [], 'unsupported': [], 'states_returned': 0}
    for fn, pairs, pre in entries:
        an = Analyzer(P, inline=inline)
        if contracts:
            an.contracts.update(contracts)
        if max_depth is not None:
            an.max_depth = max_depth
        rets = an.run(fn, pairs=pairs, pre=pre)
        info['entries'].append({'entry': fn.name, 'return_states': len(rets), 'obligation_instances': len(an.obls)})
        info['states_returned'] += len(rets)
        for f, n, t in an.throws:
            info['throws'].append((f, n, t))
        info['unsupported'] += an.unsupported
        for key, e in summarize(an).items():
            cur = sites.get(key)
            if cur is None:
                sites[key] = e
            else:
                cur['n'] += e['n']
                cur['failed'] += e['failed']
    return sites, info


def report(ck, rule_prefix, sites, kinds=('bound', 'chrono', 'loop', 'range', 'wrap', 'alloc')):
    """Turn merged site verdicts into check obligations with keys stable under unrelated edits:
    <prefix>.<kind>/<function>/<label>#<ordinal in source order>."""
    from .prog import short
    groups = {}
    for key, e in sites.items():
        if e['kind'] not in kinds:
            continue
        label = site_label(e['desc'])
        groups.setdefault((e['kind'], short(e['fn'].q), label), []).append(e)
    n = 0
    for (kind, fq, label), lst in sorted(groups.items()):
        lst.sort(key=lambda e: (e['fn'].nodes[e['node']].get('l', 0), e['node']))
        for idx, e in enumerate(lst):
            n += 1
            ok = not e['failed']
            wit = None
            if not ok:
                o = e['failed'][0]
                wit = ['call stack: ' + ' -> '.join(getattr(o, 'stack', []) or [])]
                if o.ctx:
                    wit += ['needed: ' + '; '.join(o.ctx.get('need', [])), 'known: ' + '; '.join(o.ctx.get('known', []))]
            ck.ob('%s.%s' % (rule_prefix, kind), '%s.%s/%s/%s#%d' % (rule_prefix, kind, fq.split('::')[-1], label.replace(' ', '-'), idx + 1), ok,
                  e['fn'].loc(e['node']), '%s — %d path instance(s), %s' % (e['desc'][:200], e['n'], 'all discharged' if ok else '%d not provable' % len(e['failed'])), wit)
    return n

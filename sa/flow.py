"""Intra-procedural provenance helpers (R-FLOW): where does the value of an expression come from?"""
from .paths import unique_init, local_writes, var_decl, _result_written

DEREF_METHODS = ('::value', '::operator*', '::operator->', '::get', '::c_str', '::data', '::str', '::string')


def origin_chain(fn, node, limit=12):
    """Yield the nodes a value passes through going backwards: the expression itself (stripped),
    the operand of `*x` / `x.value()`, and the single definition of a local variable."""
    seen = set()
    i = node
    while i is not None and i >= 0 and limit > 0:
        limit -= 1
        i = fn.strip(i)
        if i in seen:
            return
        seen.add(i)
        nd = fn.nodes[i]
        yield i
        k = nd['k']
        if k == 'DeclRefExpr' and nd.get('dk') == 'Var':
            init = unique_init(fn, nd['d'], i)
            if init is None:
                return
            i = init
        elif k == 'UnaryOperator' and nd.get('op') == '*':
            i = fn.kids(i)[0]
        elif k == 'CXXOperatorCallExpr' and nd.get('op') in ('*', '->', '[]') and len(fn.kids(i)) >= 2:
            i = fn.kids(i)[1]
        elif k == 'CXXMemberCallExpr' and any(nd.get('callee', '').endswith(s) for s in DEREF_METHODS):
            i = fn.receiver(i)
        elif k == 'CallExpr' and nd.get('callee') in ('std::move', 'std::forward', 'std::as_const'):
            a = fn.call_args(i)
            i = a[0] if a else None
        elif k in ('CXXConstructExpr', 'CXXTemporaryObjectExpr') and len(fn.kids(i)) == 1:
            # converting construction T{x} (e.g. string_view(str), optional<T>(x), span(vec))
            i = fn.kids(i)[0]
        else:
            return


def derives_from(fn, node, pred):
    """Some node on the origin chain satisfies pred(node dict, id)."""
    for i in origin_chain(fn, node):
        if pred(fn.nodes[i], i):
            return True
    return False


def is_member(m):
    return lambda nd, i: nd['k'] == 'MemberExpr' and nd.get('m') == m


def is_call_to(callee):
    from .prog import match_name
    return lambda nd, i: nd.get('callee') is not None and match_name(callee, nd['callee'])


def all_defs(fn, d):
    """All definitions of local d: (kind, rhs node or None, site node)."""
    out = []
    vd = var_decl(fn, d)
    if vd is not None and 'init' in fn.nodes[vd]:
        out.append(('init', fn.nodes[vd]['init'], vd))
    for w in local_writes(fn, d):
        wn = fn.nodes[w]
        if wn['k'] == 'BinaryOperator' and wn.get('op') == '=':
            out.append(('assign', fn.kids(w)[1], w))
        elif wn['k'] == 'CXXOperatorCallExpr' and wn.get('op') == '=' and len(fn.kids(w)) == 3:
            out.append(('assign', fn.kids(w)[2], w))
        else:
            out.append(('other', None, w))
    return out


def refs_to(fn, d, root=None):
    return [i for i in fn.walk(root) if fn.nodes[i]['k'] == 'DeclRefExpr' and fn.nodes[i].get('d') == d]


def mentions(fn, node, pred):
    """Any node in the subtree satisfies pred."""
    for i in fn.walk(node):
        if pred(fn.nodes[i], i):
            return True
    return False


def value_sources(fn, node, limit=400):
    """May-provenance closure (flow-insensitive): all nodes that can contribute to the value of
    `node` — its sub-expressions and, for every local it mentions, every definition of that local."""
    seen = set()
    seen_decl = set()
    stack = [node]
    while stack and len(seen) < limit * 10:
        i = stack.pop()
        if i is None or i < 0 or i in seen:
            continue
        seen.add(i)
        nd = fn.nodes[i]
        if nd['k'] == 'DeclRefExpr' and nd.get('dk') in ('Var', 'Binding') and nd['d'] not in seen_decl:
            seen_decl.add(nd['d'])
            for _k, rhs, site in all_defs(fn, nd['d']):
                if rhs is not None:
                    stack.append(rhs)
                else:
                    # element / field write `x[i] = e`, `x.f = e`, `x[i] |= e`: the written value is part of x's sources
                    pm = fn.parent_map()
                    j = site
                    p = pm.get(j)
                    while p is not None and fn.nodes[p]['k'] in ('ParenExpr', 'ImplicitCastExpr', 'MemberExpr', 'ArraySubscriptExpr') and \
                            fn.kids(p) and fn.kids(p)[0] == j:
                        j, p = p, pm.get(p)
                    if p is not None:
                        pn = fn.nodes[p]
                        if pn['k'] in ('BinaryOperator', 'CompoundAssignOperator') and pn.get('op', '').endswith('=') and \
                                pn['op'] not in ('==', '!=', '<=', '>=') and fn.kids(p)[0] == j:
                            stack.append(p)
                        elif pn['k'] == 'CXXOperatorCallExpr' and pn.get('op', '').endswith('=') and pn['op'] not in ('==', '!=', '<=', '>=') \
                                and len(fn.kids(p)) == 3 and fn.kids(p)[1] == j:
                            stack.append(p)
                    stack.append(site)
        stack.extend(fn.kids(i))
    return seen


def field_accesses(fn):
    """[(node id of MemberExpr on a field, qualified field name, is_write)] for every field access in fn.
    A write is an assignment / compound assignment / ++ / -- / address-of / binding to a mutable
    reference / mutating member call (push_back, erase, operator[] on a map, …) on the field or on an
    element reached through it."""
    cache = getattr(fn, '_fa', None)
    if cache is not None:
        return cache
    out = []
    pm = fn.parent_map()
    for i, nd in enumerate(fn.nodes):
        if nd['k'] == 'CtorInit' and 'm' in nd:
            out.append((i, nd['m'], True))
            continue
        if nd['k'] != 'MemberExpr' or nd.get('mk') != 'Field':
            continue
        w = _result_written(fn, i, pm)
        if not w:
            # map::operator[] inserts a default element even when only read
            p = pm.get(i)
            while p is not None and fn.nodes[p]['k'] in ('ParenExpr', 'ImplicitCastExpr'):
                p = pm.get(p)
            if p is not None and fn.nodes[p]['k'] == 'CXXOperatorCallExpr' and fn.nodes[p].get('op') == '[]':
                c = fn.nodes[p].get('callee', '')
                ks_ = fn.kids(p)
                # the field must be the container (first operand), not the key
                if ('map<' in c) and not fn.nodes[p].get('cconst') and len(ks_) >= 2 and fn.strip(ks_[1]) == i:
                    w = True
        out.append((i, nd['m'], w))
    fn._fa = out
    return out


def field_writes(fn, field=None):
    return [(i, m) for i, m, w in field_accesses(fn) if w and (field is None or m == field)]

"""Behaviour-preserving whole-tree variants for checker self-validation: a copy of the product sources in which every local
variable and parameter of every unit is renamed.  A check must stay silent on it (thorough tier, see sa/selftest.py)."""
import hashlib
import os
import re
import shutil

from . import build
from .build import WORK

KEYWORDS = {'int', 'for', 'auto', 'std', 'end', 'min', 'max', 'key', 'now', 'size', 'data', 'begin', 'value', 'first', 'second', 'count', 'lock', 'it', 'ok'}


def _tree_hash(repo):
    h = hashlib.sha256()
    for sub in ('src', 'include'):
        for root, _d, files in sorted(os.walk(os.path.join(repo, sub))):
            for f in sorted(files):
                p = os.path.join(root, f)
                h.update(p.encode())
                h.update(open(p, 'rb').read())
    return h.hexdigest()[:16]


def renamed_tree(repo=None):
    """Path of an overlay of `repo` with renamed locals and parameters (built once per source state, under .work/)."""
    from .prog import Program
    repo = repo or build.REPO
    ov = os.path.join(WORK, 'renamed-' + _tree_hash(repo))
    done = os.path.join(ov, '.complete')
    if os.path.exists(done):
        return ov, int(open(done).read() or 0)
    if os.path.exists(ov):
        shutil.rmtree(ov)
    os.makedirs(ov)
    for sub in ('src', 'include', 'cmake'):
        s = os.path.join(repo, sub)
        if os.path.isdir(s):
            shutil.copytree(s, os.path.join(ov, sub))
    shutil.copy(os.path.join(repo, 'CMakeLists.txt'), ov)
    units = build.all_units(repo)
    fields = set()
    progs = {}
    os.environ['VERIF_NO_PIN'] = '1'
    try:
        for u in units:
            progs[u] = Program([u], repo=repo)
            for r in progs[u].records.values():
                for fl in r.get('fields', []):
                    fields.add(fl['n'])
    finally:
        del os.environ['VERIF_NO_PIN']
    total = 0
    for u in units:
        P = progs[u]
        src = open(os.path.join(repo, u)).read()
        names = set()
        for f in P.fns:
            if not f.file.endswith(u):
                continue
            for p_ in f.params:
                if p_.get('n') and len(p_['n']) >= 3:
                    names.add(p_['n'])
            for i in f.walk():
                nd = f.nodes[i]
                if nd['k'] == 'VarDecl' and nd.get('n') and len(nd['n']) >= 3 and not nd.get('static'):
                    names.add(nd['n'])
        picked = []
        for n in sorted(names):
            if n in fields or n in KEYWORDS or n.endswith('_'):
                continue
            e = re.escape(n)
            if re.search(r'(\.|->|::)\s*%s\b' % e, src) or re.search(r'\b%s\s*\(' % e, src) or re.search(r'\.%s\s*=' % e, src):
                continue
            if re.search(r'"[^"\n]*\b%s\b[^"\n]*"' % e, src):
                continue
            picked.append(n)
        t = src
        for n in picked:
            t = re.sub(r'(?<![\w"])%s(?![\w"])' % re.escape(n), n + '_rn', t)
        open(os.path.join(ov, u), 'w').write(t)
        total += len(picked)
    open(done, 'w').write(str(total))
    return ov, total

"""Behaviour-preserving whole-tree variants for checker self-validation: a copy of the product sources in which every local
variable and parameter of every unit is renamed.  A check must stay silent on it (thorough tier, see sa/selftest.py)."""
import hashlib
import os
import re
import shutil

from . import build
from .build import WORK

KEYWORDS = {'int', 'for', 'auto', 'std', 'end', 'min', 'max', 'key', 'now', 'size', 'data', 'begin', 'value', 'first', 'second', 'count', 'lock', 'it', 'ok'}


def _tree_hash(repo):
    h = hashlib.sha256()
    for sub in ('src', 'include'):
        for root, _d, files in sorted(os.walk(os.path.join(repo, sub))):
            for f in sorted(files):
                p = os.path.join(root, f)
                h.update(p.encode())
                h.update(open(p, 'rb').read())
    return h.hexdigest()[:16]


def renamed_tree(repo=None):
    """Path of an overlay of `repo` with renamed locals and parameters (built once per source state, under .work/)."""
    from .prog import Program
    repo = repo or build.REPO
    ov = os.path.join(WORK, 'renamed-' + _tree_hash(repo))
    done = os.path.join(ov, '.complete')
    if os.path.exists(done):
        return ov, int(open(done).read() or 0)
    if os.path.exists(ov):
        shutil.rmtree(ov)
    os.makedirs(ov)
    for sub in ('src', 'include', 'cmake'):
        s = os.path.join(repo, sub)
        if os.path.isdir(s):
            shutil.copytree(s, os.path.join(ov, sub))
    shutil.copy(os.path.join(repo, 'CMakeLists.txt'), ov)
    units = build.all_units(repo)
    fields = set()
    progs = {}
    os.environ['VERIF_NO_PIN'] = '1'
    try:
        for u in units:
            progs[u] = Program([u], repo=repo)
            for r in progs[u].records.values():
                for fl in r.get('fields', []):
                    fields.add(fl['n'])
    finally:
        del os.environ['VERIF_NO_PIN']
    total = 0
    for u in units:
        P = progs[u]
        src = open(os.path.join(repo, u)).read()
        names = set()
        for f in P.fns:
            if not f.file.endswith(u):
                continue
            for p_ in f.params:
                if p_.get('n') and len(p_['n']) >= 3:
                    names.add(p_['n'])
            for i in f.walk():
                nd = f.nodes[i]
                if nd['k'] == 'VarDecl' and nd.get('n') and len(nd['n']) >= 3 and not nd.get('static'):
                    names.add(nd['n'])
        picked = []
        for n in sorted(names):
            if n in fields or n in KEYWORDS or n.endswith('_'):
                continue
            e = re.escape(n)
            if re.search(r'(\.|->|::)\s*%s\b' % e, src) or re.search(r'\b%s\s*\(' % e, src) or re.search(r'\.%s\s*=' % e, src):
                continue
            if re.search(r'"[^"\n]*\b%s\b[^"\n]*"' % e, src):
                continue
            picked.append(n)
        t = src
        for n in picked:
            t = re.sub(r'(?<![\w"])%s(?![\w"])' % re.escape(n), n + '_rn', t)
        open(os.path.join(ov, u), 'w').write(t)
        total += len(picked)
    open(done, 'w').write(str(total))
    return ov, total


# ---- further generated variants: no-op statements, dropped braces --------------------------------------------------------------------
_OPEN = re.compile(r'^(?P<ind>\s*)(?!namespace\b|class\b|struct\b|enum\b|union\b|extern\b|switch\b)(?P<body>.*\)\s*(const\s*)?(noexcept\s*)?(override\s*)?(->\s*[\w:<>,\s\*&]+\s*)?\{\s*)$')
_ELSE = re.compile(r'^(?P<ind>\s*)\}\s*else\s*\{\s*$')
_HEAD = re.compile(r'^(?P<ind>\s*)(?P<kw>if|for|while) \((?P<c>.*)\) \{\s*$')


def _noop(src):
    """`(void)0;` at the top of every function / lambda / if / else / for / while / catch block (switch bodies excepted)."""
    out, k = [], 0
    for line in src.split('\n'):
        out.append(line)
        m = _OPEN.match(line) or _ELSE.match(line)
        if m and 'switch (' not in line and 'switch(' not in line and not line.strip().startswith(('//', '*', '#')):
            out.append(m.group('ind') + '    (void)0;')
            k += 1
    return '\n'.join(out), k


def _unbrace(src):
    """Braces dropped from `if/for/while (...) { single statement; }` (three-line form, no else)."""
    lines = src.split('\n')
    out, i, k = [], 0, 0
    while i < len(lines):
        m = _HEAD.match(lines[i])
        if m and i + 2 < len(lines) and lines[i + 2] == m.group('ind') + '}' and lines[i + 1].startswith(m.group('ind') + '    ') \
                and lines[i + 1].rstrip().endswith(';') and not re.match(r'\s*(if|for|while|do|switch|else|case|default|//|/\*|#)', lines[i + 1]) \
                and not re.match(r'\s*(const |auto |std::|[A-Za-z_:<>]+ [a-z_]+( =|\{|;))', lines[i + 1]) \
                and lines[i + 1].count('(') == lines[i + 1].count(')') and m.group('c').count('(') == m.group('c').count(')') \
                and not (i + 3 < len(lines) and re.match(r'\s*else\b', lines[i + 3])):
            out.append('%s%s (%s)' % (m.group('ind'), m.group('kw'), m.group('c')))
            out.append(lines[i + 1])
            i += 3
            k += 1
            continue
        out.append(lines[i])
        i += 1
    return '\n'.join(out), k


_OPND = r'[A-Za-z_][\w]*(?:(?:\.|->)[A-Za-z_]\w*)*(?:\(\))?|\d+[uUlL]*'
_CMP = re.compile(r'(?:(?<=\()|(?<=&& )|(?<=\|\| )|(?<=return ))(?P<a>' + _OPND + r') (?P<op><=|>=|==|!=|<|>) (?P<b>' + _OPND + r')(?=\)| &&| \|\||;)')
_MIR = {'<': '>', '>': '<', '<=': '>=', '>=': '<=', '==': '==', '!=': '!='}


def _mirror(src):
    """Simple comparisons in if / while / return lines written the other way round (`a < b` -> `b > a`)."""
    out, k = [], 0
    for line in src.split('\n'):
        st = line.strip()
        if st.startswith(('if (', '} else if (', 'while (', 'return ')) and 'template' not in line and '<<' not in line and '>>' not in line \
                and 'static_cast<' not in line and 'std::' not in line and '"' not in line and "'" not in line:
            new, c = _CMP.subn(lambda m: '%s %s %s' % (m.group('b'), _MIR[m.group('op')], m.group('a')), line)
            if c:
                k += c
                line = new
        out.append(line)
    return '\n'.join(out), k


_IFHEAD = re.compile(r'^(?P<ind>\s*)if \((?P<c>.*)\) \{\s*$')


def _invert(src):
    """`if (c) { A } else { B }` -> `if (!(c)) { B } else { A }` for plain if/else statements (no else-if chains, no
    declarations in the condition)."""
    lines = src.split('\n')
    out, i, k = [], 0, 0
    while i < len(lines):
        m = _IFHEAD.match(lines[i])
        if m and ';' not in m.group('c') and m.group('c').count('(') == m.group('c').count(')') and not re.search(r'\b(const|auto)\b', m.group('c')) \
                and not (out and re.match(r'\s*(\}\s*)?else\s*$', out[-1])) and not lines[i].lstrip().startswith('} else'):
            ind = m.group('ind')
            j = i + 1
            while j < len(lines) and not (lines[j].startswith(ind) and lines[j][len(ind):len(ind) + 1] == '}'):
                if lines[j].strip() and not lines[j].startswith(ind + ' ') and not lines[j].startswith('#'):
                    break
                j += 1
            if j < len(lines) and lines[j] == ind + '} else {':
                e = j + 1
                while e < len(lines) and not (lines[e].startswith(ind) and lines[e][len(ind):len(ind) + 1] == '}'):
                    if lines[e].strip() and not lines[e].startswith(ind + ' ') and not lines[e].startswith('#'):
                        break
                    e += 1
                if e < len(lines) and lines[e] == ind + '}':
                    then_body, else_body = lines[i + 1:j], lines[j + 1:e]
                    body_txt = '\n'.join(then_body + else_body)
                    if '#if' not in body_txt and '#else' not in body_txt and '#endif' not in body_txt:
                        out.append('%sif (!(%s)) {' % (ind, m.group('c')))
                        out += else_body
                        out.append(ind + '} else {')
                        out += then_body
                        out.append(ind + '}')
                        i = e + 1
                        k += 1
                        continue
        out.append(lines[i])
        i += 1
    return '\n'.join(out), k


_RETB = re.compile(r'^(?P<ind>\s*)return (?P<e>[^;{}?]*(?:==|!=|<=|>=| < | > |&&|\|\|)[^;{}?]*);\s*$')


def _extract(src):
    """`return <boolean expression>;` -> `const bool verdict_N = <expr>; return verdict_N;` (single-line returns whose
    expression contains a comparison or logical operator; lambdas with deduced return type keep returning bool)."""
    out, k = [], 0
    lines = src.split('\n')
    for idx, line in enumerate(lines):
        m = _RETB.match(line)
        prev = lines[idx - 1].strip() if idx else ''
        if m and '<<' not in line and '>>' not in line and '<=>' not in line and 'static_cast<' not in line and 'std::' not in m.group('e') \
                and m.group('e').count('(') == m.group('e').count(')') and (prev.endswith(('{', ';', '}')) or not prev):
            k += 1
            out.append('%sconst bool verdict_%d = %s;' % (m.group('ind'), k, m.group('e')))
            out.append('%sreturn verdict_%d;' % (m.group('ind'), k))
        else:
            out.append(line)
    return '\n'.join(out), k


TRANSFORMS = {'extracted': (_extract, 'boolean return expressions named in a local first'),
              'inverted': (_invert, 'if/else statements with the condition negated and the branches swapped'),
              'mirrored': (_mirror, 'comparisons written the other way round (`a < b` -> `b > a`)'),
              'noop': (_noop, 'no-op statements `(void)0;` inserted at the top of blocks'),
              'unbraced': (_unbrace, 'single-statement if/for/while blocks with their braces dropped')}


def _syntax_ok(args):
    import subprocess
    ov, unit = args
    r = subprocess.run(['g++', '-std=c++20', '-fsyntax-only', '-I', 'include', '-I', 'src', unit], cwd=ov, capture_output=True, text=True)
    return r.returncode == 0


def transformed_tree(kind, repo=None):
    """Path of an overlay of `repo` with TRANSFORMS[kind] applied to every product unit that still parses afterwards (built once
    per source state under .work/, guarded by a lock file), and the number of edits made."""
    import fcntl
    from concurrent.futures import ThreadPoolExecutor
    repo = repo or build.REPO
    fn_, _desc = TRANSFORMS[kind]
    ov = os.path.join(WORK, '%s-%s' % (kind, _tree_hash(repo)))
    done = os.path.join(ov, '.complete')
    os.makedirs(WORK, exist_ok=True)
    with open(os.path.join(WORK, '.%s.lock' % kind), 'w') as lk:
        fcntl.flock(lk, fcntl.LOCK_EX)
        if os.path.exists(done):
            return ov, int(open(done).read() or 0)
        if os.path.exists(ov):
            shutil.rmtree(ov)
        os.makedirs(ov)
        for sub in ('src', 'include', 'cmake'):
            s = os.path.join(repo, sub)
            if os.path.isdir(s):
                shutil.copytree(s, os.path.join(ov, sub))
        shutil.copy(os.path.join(repo, 'CMakeLists.txt'), ov)
        units = build.all_units(repo)
        orig, counts = {}, {}
        for u in units:
            p = os.path.join(ov, u)
            orig[u] = open(p).read()
            t, k = fn_(orig[u])
            counts[u] = k
            open(p, 'w').write(t)
        with ThreadPoolExecutor(max_workers=8) as ex:
            oks = list(ex.map(_syntax_ok, [(ov, u) for u in units]))
        total = 0
        for u, ok in zip(units, oks):
            if ok:
                total += counts[u]
            else:
                open(os.path.join(ov, u), 'w').write(orig[u])
        open(done, 'w').write(str(total))
        return ov, total

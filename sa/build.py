"""B0/X1: compile database from the repository's own CMake, and cached per-unit facts.

Nothing of EphemeralNet is compiled to machine code or executed here: cmake is run in
configure-only mode (to obtain the real flags and the list of product units) and
`envx` parses each unit with clang and dumps the resolved AST + CFG as JSON.
"""
import fcntl
import hashlib
import json
import os
import shlex
import subprocess
import sys
import time
from concurrent.futures import ThreadPoolExecutor

VERIF = os.path.dirname(os.path.dirname(os.path.abspath(__file__)))
WORK = os.path.join(VERIF, '.work')
REPO = os.environ.get('VERIF_REPO', '/repo')
ENVX = os.path.join(WORK, 'bin', 'envx')
ENVX_SRC = os.path.join(VERIF, 'tools', 'envx', 'envx.cc')


class AnalysisBroken(Exception):
    """exit 2: the analysis could not be carried out (never a pass, never a violation)."""


def _sha(*parts):
    h = hashlib.sha256()
    for p in parts:
        if isinstance(p, str):
            p = p.encode()
        h.update(p)
        h.update(b'\0')
    return h.hexdigest()


def _file_hash(path):
    with open(path, 'rb') as f:
        return hashlib.sha256(f.read()).hexdigest()


def ensure_envx():
    """(Re)build the libTooling exporter when its source is newer than the binary."""
    os.makedirs(os.path.join(WORK, 'bin'), exist_ok=True)
    stamp = ENVX + '.srchash'
    want = _file_hash(ENVX_SRC)
    if os.path.exists(ENVX) and os.path.exists(stamp) and open(stamp).read() == want:
        return
    lock = open(os.path.join(WORK, 'bin', '.lock'), 'w')
    fcntl.flock(lock, fcntl.LOCK_EX)
    try:
        if os.path.exists(ENVX) and os.path.exists(stamp) and open(stamp).read() == want:
            return
        cxxflags = subprocess.check_output(['llvm-config-14', '--cxxflags'], text=True).split()
        cmd = ['clang++'] + cxxflags + ['-fno-rtti', '-O1', '-w', ENVX_SRC, '-o', ENVX + '.tmp',
                                        '/usr/lib/llvm-14/lib/libclang-cpp.so.14',
                                        '/usr/lib/llvm-14/lib/libLLVM-14.so']
        r = subprocess.run(cmd, capture_output=True, text=True)
        if r.returncode != 0:
            raise AnalysisBroken('cannot build envx: ' + r.stderr[-2000:])
        os.replace(ENVX + '.tmp', ENVX)
        with open(stamp, 'w') as f:
            f.write(want)
    finally:
        fcntl.flock(lock, fcntl.LOCK_UN)


def _cmake_inputs_hash(repo):
    parts = []
    for rel in ['CMakeLists.txt']:
        p = os.path.join(repo, rel)
        if os.path.exists(p):
            parts.append(_file_hash(p))
    cm = os.path.join(repo, 'cmake')
    if os.path.isdir(cm):
        for fn in sorted(os.listdir(cm)):
            parts.append(fn + _file_hash(os.path.join(cm, fn)))
    # the set of source files matters too (globbing / new files listed in CMakeLists)
    return _sha(*parts)


def compile_db(repo=None):
    """Return {relative unit path: argv} for the product units (tests excluded)."""
    repo = repo or REPO
    tag = _sha(repo)[:10]
    cdb_dir = os.path.join(WORK, 'cdb-' + tag)
    os.makedirs(WORK, exist_ok=True)
    stamp = os.path.join(cdb_dir, '.inputs')
    want = _cmake_inputs_hash(repo)
    lock = open(os.path.join(WORK, '.cdb-lock-' + tag), 'w')
    fcntl.flock(lock, fcntl.LOCK_EX)
    try:
        cc = os.path.join(cdb_dir, 'compile_commands.json')
        if not (os.path.exists(cc) and os.path.exists(stamp) and open(stamp).read() == want):
            r = subprocess.run(['cmake', '-S', repo, '-B', cdb_dir, '-G', 'Ninja',
                                '-DCMAKE_EXPORT_COMPILE_COMMANDS=ON', '-DCMAKE_BUILD_TYPE=RelWithDebInfo'],
                               capture_output=True, text=True)
            if r.returncode != 0 or not os.path.exists(cc):
                raise AnalysisBroken('cmake configure failed: ' + (r.stdout + r.stderr)[-2000:])
            with open(stamp, 'w') as f:
                f.write(want)
        db = json.load(open(cc))
    finally:
        fcntl.flock(lock, fcntl.LOCK_UN)
    units = {}
    for e in db:
        f = e['file']
        rel = os.path.relpath(f, repo)
        if rel.startswith('tests/') or rel.startswith('..'):
            continue
        if rel in units:
            continue
        argv = shlex.split(e['command']) if 'command' in e else list(e['arguments'])
        out = []
        skip = 0
        for a in argv[1:]:
            if skip:
                skip -= 1
                continue
            if a in ('-o', '-MF', '-MT', '-MQ'):
                skip = 1
                continue
            if a in ('-c', '-MD', '-MMD', '-g') or a.startswith('-O') or a.startswith('-W'):
                continue
            if a == f:
                continue
            out.append(a)
        if not any(a.startswith('-std=') for a in out):
            out.append('-std=gnu++17')
        out += ['-Wno-everything', '-ferror-limit=0']
        units[rel] = out
    if len(units) < 20:
        raise AnalysisBroken('compile database lists only %d product units' % len(units))
    return units


_RES_DIR = None
STD_FALLBACK = set()


def _resource_dir():
    global _RES_DIR
    if _RES_DIR is None:
        _RES_DIR = subprocess.check_output(['clang', '-print-resource-dir'], text=True).strip()
    return _RES_DIR


def _header_hash(repo):
    parts = []
    for base in ('include', 'src'):
        for root, _dirs, files in os.walk(os.path.join(repo, base)):
            for fn in sorted(files):
                if fn.endswith(('.hpp', '.h', '.hh', '.inc', '.ipp')):
                    p = os.path.join(root, fn)
                    parts.append(os.path.relpath(p, repo) + ':' + _file_hash(p))
    parts.sort()
    return _sha(*parts)


def extract_units(unit_names, repo=None, jobs=16):
    """Return {unit: path to facts JSON}.  Cached by content hash of unit + headers + flags + tool."""
    repo = repo or REPO
    ensure_envx()
    # overlays (seeded variants of the sources under .work/) reuse the real tree's compile database
    base = REPO if os.path.abspath(repo).startswith(os.path.abspath(WORK) + os.sep) else repo
    units = compile_db(base)
    missing = [u for u in unit_names if u not in units]
    if missing:
        raise AnalysisBroken('units not in the build: %s' % ', '.join(missing))
    facts_dir = os.path.join(WORK, 'facts')
    os.makedirs(facts_dir, exist_ok=True)
    hh = _header_hash(repo)
    # an overlay unit whose source and headers are byte-identical to the real tree's has the real tree's facts
    same_headers = repo != base and hh == _header_hash(base)
    tool = open(ENVX + '.srchash').read()
    result = {}
    todo = []
    for u in unit_names:
        src = os.path.join(repo, u)
        key_repo = repo
        if same_headers and os.path.exists(os.path.join(base, u)) and _file_hash(src) == _file_hash(os.path.join(base, u)):
            key_repo = base
            src = os.path.join(base, u)
        key = _sha(tool, hh, _file_hash(src), ' '.join(units[u]), key_repo)[:24]
        out = os.path.join(facts_dir, key + '.json')
        result[u] = out
        if not os.path.exists(out):
            todo.append((u, src, out))

    def run(job):
        u, src, out = job
        tmp = out + '.%d.tmp' % os.getpid()
        root = base if src.startswith(base.rstrip('/') + '/') else repo
        args = [a.replace(base.rstrip('/') + '/', root.rstrip('/') + '/') if root != base else a for a in units[u]]
        cmd = [ENVX, '--root', root.rstrip('/') + '/', '--out', tmp, src, '--'] + args + \
              ['-resource-dir', _resource_dir()]
        r = subprocess.run(cmd, capture_output=True, text=True, cwd=root)
        if (r.returncode != 0 or not os.path.exists(tmp)) and '-std=c++20' in cmd:
            # clang 14 + libstdc++ 12 reject a few constructs in C++20 mode that g++ (the real
            # compiler) accepts, e.g. std::pair<std::string, T> with T still incomplete
            # (UpdateCheck.cpp's JsonValue).  Such a unit is re-parsed as C++17; the fallback is
            # recorded in the facts so that evidence can show it.
            cmd2 = ['-std=c++17' if a == '-std=c++20' else a for a in cmd]
            r20 = r
            r = subprocess.run(cmd2, capture_output=True, text=True, cwd=repo)
            if r.returncode == 0 and os.path.exists(tmp):
                STD_FALLBACK.add(u)
            else:
                # neither mode parses: report the C++20 diagnostics (the real build's mode).  Known front-end limit: clang 14
                # cannot instantiate libstdc++ 12's std::ranges::subrange, so code calling std::ranges algorithms that return
                # one (remove_if, unique, ...) cannot be analysed here at all.
                r = r20
        if r.returncode != 0 or not os.path.exists(tmp):
            try:
                os.unlink(tmp)
            except OSError:
                pass
            return u, (r.stdout + r.stderr)[-3000:]
        os.replace(tmp, out)
        return u, None

    if todo:
        with ThreadPoolExecutor(max_workers=jobs) as ex:
            for u, err in ex.map(run, todo):
                if err:
                    raise AnalysisBroken('unit %s does not parse: %s' % (u, err))
    return result


def all_units(repo=None):
    repo = repo or REPO
    # overlays (seeded variants under .work/) carry only src/, include/ and the CMake files: they reuse the real tree's database
    base = REPO if os.path.abspath(repo).startswith(os.path.abspath(WORK) + os.sep) else repo
    return sorted(compile_db(base).keys())


def gc_facts(max_files=400):
    d = os.path.join(WORK, 'facts')
    if not os.path.isdir(d):
        return
    fs = sorted((os.path.getmtime(os.path.join(d, f)), f) for f in os.listdir(d))
    for _, f in fs[:-max_files]:
        try:
            os.unlink(os.path.join(d, f))
        except OSError:
            pass


if __name__ == '__main__':
    t = time.time()
    us = all_units()
    res = extract_units(us)
    print(len(res), 'units', '%.1fs' % (time.time() - t))
    print(sum(os.path.getsize(p) for p in res.values()) // 1024, 'KiB')

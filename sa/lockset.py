"""G3: lockset race analysis (R-LOCK) over the exported whole program.

For each thread root r and each function f reachable from r, MUST[r][f] is the set of mutexes held on entry on every call
path from r (intersection over call sites of: caller's entry set + RAII guards lexically alive at the site).  A field access
holds MUST[r][f] + the guards alive at the access.  Two accesses of the same shared field race when they can run on different
threads (different roots, or one self-concurrent root), at least one writes, and their locksets are disjoint."""
from collections import deque

from .flow import field_accesses
from .prog import short

GUARDS = ('std::scoped_lock<', 'std::lock_guard<', 'std::unique_lock<', 'std::shared_lock<')
UNSHARED_TYPES = ('std::atomic', 'std::mutex', 'std::recursive_mutex', 'std::condition_variable', 'std::thread', 'std::shared_mutex', 'std::once_flag')


def std_function_bindings(P):
    """signature text -> set of callable qnames bound to a std::function of that signature anywhere in the program."""
    known = set(P.by_q)
    out = {}
    for f in P.fns:
        for i in f.walk():
            nd = f.nodes[i]
            c = nd.get('callee', '') or ''
            if nd['k'] in ('CXXConstructExpr', 'CXXTemporaryObjectExpr', 'CXXOperatorCallExpr') and c.startswith('std::function<') and \
                    (c.endswith('::function') or c.endswith('::operator=')):
                sig = c[len('std::function<'):c.rfind('>::')]
                for j in f.walk(i):
                    jn = f.nodes[j]
                    tgt = None
                    if jn['k'] == 'LambdaExpr' and jn.get('fn'):
                        tgt = jn['fn']
                    elif jn['k'] == 'DeclRefExpr' and jn.get('dk') in ('Function', 'CXXMethod') and jn.get('q') in known:
                        tgt = jn['q']
                    elif jn['k'] == 'DeclRefExpr' and jn.get('dk') == 'Var':
                        for x in f.nodes:
                            if x['k'] == 'VarDecl' and x.get('d') == jn.get('d') and 'init' in x:
                                ini = f.strip(x['init'])
                                if f.nodes[ini]['k'] == 'LambdaExpr' and f.nodes[ini].get('fn'):
                                    tgt = f.nodes[ini]['fn']
                    if tgt:
                        out.setdefault(sig, set()).add(tgt)
    return out


class Locksets:
    def __init__(self, P, aliases=None, shared_classes=(), roots_extra=(), skip_ctor_callees=False):
        self.P = P
        self.skip_ctor_callees = skip_ctor_callees
        self.alias = dict(aliases or {})
        self.shared = tuple(shared_classes)
        self.bind = std_function_bindings(P)
        self._held_cache = {}
        self.edges = {}          # id(fn) -> [(site node, target Fn)]
        self.fn_by_id = {id(f): f for f in P.fns}
        for f in P.fns:
            self.edges[id(f)] = self._edges_of(f)
        self.roots = {}          # name -> (Fn, self_concurrent)
        self.spawns = {}         # root name -> [(spawning Fn, node)]
        self._find_roots()
        for name, fn, selfc in roots_extra:
            self.roots[name] = (fn, selfc)
        self.must = {}           # root -> {id(fn): frozenset(locks)}
        self.pred = {}           # root -> {id(fn): (id(caller), site)}
        for r in self.roots:
            self._solve(r)

    # ---- locks ------------------------------------------------------------------------------------------------
    def lock_id(self, f, expr):
        n = f.strip(expr)
        nd = f.nodes[n]
        lid = None
        if nd['k'] == 'MemberExpr' and nd.get('mk') == 'Field':
            lid = nd.get('m')
        elif nd['k'] == 'DeclRefExpr':
            lid = nd.get('q') if nd.get('g') else 'local %s in %s' % (nd.get('n'), short(f.q))
        if lid is None:
            lid = 'expr %s in %s' % (f.text(n)[:40], short(f.q))
        return self.alias.get(lid, lid)

    def guards_in(self, f, stmt, at=None):
        """Lock ids acquired by guard declarations directly in statement stmt (a DeclStmt) and still held at node `at`:
        a unique_lock that was `.unlock()`ed (and not `.lock()`ed again) before `at` in source order holds nothing."""
        out = []
        if f.nodes[stmt]['k'] != 'DeclStmt':
            return out
        for v in f.kids(stmt):
            vd = f.nodes[v]
            if vd['k'] == 'VarDecl' and (vd.get('t') or '').replace('const ', '').startswith(GUARDS) and vd.get('init') is not None and vd['init'] >= 0:
                if at is not None and not self._still_locked(f, vd.get('d'), at):
                    continue
                ini = f.strip(vd['init'])
                args = [a for a in f.kids(ini) if f.nodes[a]['k'] != 'CXXDefaultArgExpr'] if f.nodes[ini]['k'] in ('CXXConstructExpr', 'CXXTemporaryObjectExpr') else [ini]
                if any('defer_lock' in (f.nodes[f.strip(a)].get('t') or '') or 'try_to_lock' in (f.nodes[f.strip(a)].get('t') or '') for a in args):
                    continue          # not (necessarily) locked by construction
                shared = (vd.get('t') or '').replace('const ', '').startswith('std::shared_lock<')
                for a in args:
                    at_ = f.nodes[f.strip(a)].get('t') or ''
                    if 'mutex' in at_:
                        # a std::shared_lock holds the mutex in shared mode: it excludes writers only, so it protects reads
                        # but not writes (see accesses())
                        out.append(self.lock_id(f, a) + ('#shared' if shared else ''))
        return out

    def _still_locked(self, f, guard_decl, at):
        order = getattr(f, '_preorder', None)
        if order is None:
            order = {n: k for k, n in enumerate(f.walk())}
            f._preorder = order
        pos = order.get(at)
        if pos is None:
            return True
        last = None
        for i in f.walk():
            nd = f.nodes[i]
            if nd['k'] == 'CXXMemberCallExpr' and (nd.get('callee') or '').split('::')[-1] in ('unlock', 'lock', 'release') and order.get(i, 1 << 30) < pos:
                r = f.receiver(i)
                rn = f.nodes[f.strip(r)] if r is not None else {}
                if rn.get('k') == 'DeclRefExpr' and rn.get('d') == guard_decl:
                    if last is None or order[i] > last[0]:
                        last = (order[i], (nd.get('callee') or '').split('::')[-1])
        return last is None or last[1] == 'lock'

    def held_at(self, f, node):
        """Mutexes held by RAII guards lexically alive at node."""
        key = (id(f), node)
        if key in self._held_cache:
            return self._held_cache[key]
        held = set()
        child = node
        for a in f.ancestors(node):
            an = f.nodes[a]
            if an['k'] == 'CompoundStmt':
                for s in f.kids(a):
                    if s == child:
                        break
                    held |= set(self.guards_in(f, s, node))
            elif an['k'] in ('IfStmt', 'SwitchStmt') and an.get('init') is not None and an['init'] >= 0 and child != an['init']:
                held |= set(self.guards_in(f, an['init'], node))
            child = a
        res = frozenset(held)
        self._held_cache[key] = res
        return res

    # ---- call edges -----------------------------------------------------------------------------------------------
    def _edges_of(self, f):
        out = []
        pm = f.parent_map()
        for i in f.walk():
            nd = f.nodes[i]
            c = nd.get('callee')
            if c:
                if c in self.P.by_q:
                    for t in self.P.by_q[c]:
                        out.append((i, t))
                elif c.startswith('std::function<') and c.endswith('::operator()'):
                    sig = c[len('std::function<'):c.rfind('>::')]
                    for q in self.bind.get(sig, ()):
                        for t in self.P.by_q.get(q, ()):
                            out.append((i, t))
            if nd['k'] == 'LambdaExpr' and nd.get('fn'):
                # a lambda handed directly to a std algorithm (or any non-thread, non-std::function std call) runs inside that call
                p = pm.get(i)
                while p is not None and f.nodes[p]['k'] in ('ImplicitCastExpr', 'MaterializeTemporaryExpr', 'CXXBindTemporaryExpr', 'ExprWithCleanups',
                                                             'CXXConstructExpr', 'CXXFunctionalCastExpr', 'ParenExpr') and not (f.nodes[p].get('callee') or '').startswith(('std::function<', 'std::thread')):
                    p = pm.get(p)
                if p is not None:
                    pc = f.nodes[p].get('callee') or ''
                    if pc.startswith('std::') and not pc.startswith(('std::function<', 'std::thread')):
                        for t in self.P.by_q.get(nd['fn'], ()):
                            out.append((i, t))
        return out

    def _find_roots(self):
        for f in self.P.fns:
            for i in f.walk():
                nd = f.nodes[i]
                if nd.get('callee') == 'std::thread::thread' and f.kids(i):
                    tg = None
                    for j in f.walk(i):
                        jn = f.nodes[j]
                        if jn['k'] == 'LambdaExpr' and jn.get('fn'):
                            tg = jn['fn']
                            break
                        if jn['k'] == 'DeclRefExpr' and jn.get('dk') in ('CXXMethod', 'Function') and jn.get('q') in self.P.by_q:
                            tg = jn['q']
                            break
                    if tg:
                        for t in self.P.by_q[tg]:
                            name = short(tg)
                            prev = self.roots.get(name)
                            # spawned from more than one site, or from inside a loop => several instances may run at once
                            in_loop = any(f.nodes[a]['k'] in ('ForStmt', 'WhileStmt', 'DoStmt', 'CXXForRangeStmt') for a in f.ancestors(i))
                            selfc = in_loop or prev is not None
                            self.roots[name] = (t, selfc or (prev[1] if prev else False))
                            self.spawns.setdefault(name, []).append((f, i))

    def _solve(self, r):
        root, _ = self.roots[r]
        must = {id(root): frozenset()}
        pred = {id(root): None}
        work = deque([root])
        while work:
            f = work.popleft()
            base = must[id(f)]
            if self.skip_ctor_callees and f.kind in ('ctor', 'dtor'):
                continue          # what a constructor / destructor calls runs before the object is shared / after it stopped being
            for site, t in self.edges[id(f)]:
                ls = base | self.held_at(f, site)
                cur = must.get(id(t))
                if cur is None:
                    must[id(t)] = ls
                    pred[id(t)] = (id(f), site)
                    work.append(t)
                else:
                    new = cur & ls
                    if new != cur:
                        must[id(t)] = new
                        if not (ls >= cur):
                            pred[id(t)] = (id(f), site)      # remember a path with the weaker lockset
                        work.append(t)
        self.must[r] = must
        self.pred[r] = pred

    def chain(self, r, fn):
        """Call chain from root r to fn (weakest-lockset path)."""
        out = []
        cur = id(fn)
        seen = set()
        while cur is not None and cur not in seen:
            seen.add(cur)
            f = self.fn_by_id[cur]
            p = self.pred[r].get(cur)
            if p is None:
                out.append(short(f.q))
                break
            caller = self.fn_by_id[p[0]]
            out.append('%s (called at %s)' % (short(f.q), caller.loc(p[1])))
            cur = p[0]
        return list(reversed(out))

    # ---- accesses ---------------------------------------------------------------------------------------------------
    def base_root(self, f, node):
        """('this'|'ptr'|'global'|'local', path of qualified member names from the outermost field) for a field access."""
        path = []
        n = node
        while True:
            nd = f.nodes[n]
            if nd['k'] == 'MemberExpr' and nd.get('mk') == 'Field':
                path.append(nd.get('m'))
                ks = f.kids(n)
                if not ks:
                    return 'this', list(reversed(path))
                if nd.get('arrow'):
                    b = f.strip(ks[0])
                    if f.nodes[b]['k'] == 'CXXThisExpr':
                        return 'this', list(reversed(path))
                    return 'ptr', list(reversed(path))
                n = f.strip(ks[0], casts=True)
                continue
            if nd['k'] == 'CXXThisExpr':
                return 'this', list(reversed(path))
            if nd['k'] == 'DeclRefExpr':
                if nd.get('g'):
                    return 'global', list(reversed(path))
                t = self._decl_type(f, nd.get('d')) or nd.get('ts') or nd.get('t') or ''
                if t.rstrip().endswith(('&', '*')) or nd.get('ref'):
                    return 'ptr', list(reversed(path))
                return 'local', list(reversed(path))
            if nd['k'] in ('CXXOperatorCallExpr', 'UnaryOperator', 'CXXMemberCallExpr', 'CallExpr', 'ArraySubscriptExpr'):
                return 'ptr', list(reversed(path))
            ks = f.kids(n)
            if not ks:
                return 'local', list(reversed(path))
            n = ks[0]

    def _decl_type(self, f, d):
        """Declared type of a local / parameter (a reference keeps its `&`, unlike the type of an expression naming it)."""
        cache = getattr(f, '_decl_types', None)
        if cache is None:
            cache = {}
            for p_ in f.params:
                cache[p_.get('d')] = p_.get('t')
            for nd in f.nodes:
                if nd['k'] == 'VarDecl':
                    cache[nd.get('d')] = nd.get('ts') if (nd.get('ts') or '').rstrip().endswith(('&', '*')) else nd.get('t')
                    for b in nd.get('bindings') or []:
                        cache[b.get('d')] = (b.get('t') or '') + (' &' if (nd.get('t') or '').rstrip().endswith('&') else '')
            # captured variables of an enclosing function: by-reference captures are references
            f._decl_types = cache
        return cache.get(d)

    def accesses(self, r):
        """[(field path key, is_write, Fn, node, lockset)] for shared-class fields reachable from root r."""
        out = []
        for fid, base in self.must[r].items():
            f = self.fn_by_id[fid]
            if f.kind in ('ctor', 'dtor'):
                continue
            for i, m, w in field_accesses(f):
                nd = f.nodes[i]
                if nd['k'] != 'MemberExpr':
                    continue
                # a.b.c : only the outermost field of a dot-chain is an access (a and a.b are just the path to it)
                p = pm_get(f, i)
                if p is not None and f.nodes[p]['k'] == 'MemberExpr' and f.nodes[p].get('mk') == 'Field' and not f.nodes[p].get('arrow'):
                    continue
                kind, path = self.base_root(f, i)
                if kind == 'local' or not path:
                    continue
                if w and deref_of_pointer_field(f, i):
                    w = False     # ptr_->mutate(): the pointee is written (its own fields are analysed), the pointer field is only read
                # it->second.field : the std::pair of a map node is only the way to the element
                while len(path) > 1 and path[0].startswith('std::'):
                    path = path[1:]
                cls = path[0].rsplit('::', 1)[0]
                if not (cls + '::').startswith(self.shared):
                    continue
                held = base | self.held_at(f, i)
                eff = frozenset(x for x in held if not x.endswith('#shared')) | (frozenset(x[:-7] for x in held if x.endswith('#shared')) if not w else frozenset())
                out.append(('.'.join([short(path[0])] + [p.rsplit('::', 1)[-1] for p in path[1:]]), path, w, f, i, eff))
        return out


def pm_get(f, i):
    """Parent of node i, skipping parentheses and no-op casts."""
    pm = f.parent_map()
    p = pm.get(i)
    while p is not None and f.nodes[p]['k'] in ('ParenExpr', 'ImplicitCastExpr') and f.nodes[p].get('ck') in (None, 'NoOp', 'LValueToRValue', 'DerivedToBase', 'UncheckedDerivedToBase'):
        if f.nodes[p]['k'] == 'ImplicitCastExpr' and f.nodes[p].get('ck') == 'LValueToRValue':
            break
        p = pm.get(p)
    return p


def deref_of_pointer_field(f, i):
    """The field access i is immediately dereferenced as a (smart) pointer: `field_->x`, `*field_`, `field_.get()->x`."""
    pm = f.parent_map()
    j = i
    p = pm.get(j)
    while p is not None and f.nodes[p]['k'] in ('ParenExpr', 'ImplicitCastExpr'):
        j, p = p, pm.get(p)
    if p is None:
        return False
    pn = f.nodes[p]
    if pn['k'] == 'CXXOperatorCallExpr' and pn.get('op') in ('->', '*') and len(f.kids(p)) >= 2 and f.kids(p)[1] == j:
        c = pn.get('callee') or ''
        return c.startswith(('std::unique_ptr<', 'std::shared_ptr<', 'std::__shared_ptr<', 'std::__shared_ptr_access<', 'std::weak_ptr<'))
    if pn['k'] == 'MemberExpr' and pn.get('arrow') and f.kids(p) and f.kids(p)[0] == j:
        return True
    if pn['k'] == 'UnaryOperator' and pn.get('op') == '*':
        return (f.nodes[i].get('t') or '').rstrip().endswith('*')
    return False

"""G2: exception-escape analysis (R-ESC) over the whole exported program.

esc(f) = set of exception *types* that may leave f: explicit throw sites, a curated table of std calls that
throw on input-dependent conditions, and the escape sets of callees (direct calls, locally invoked lambdas,
std::function calls resolved by signature to every callable bound to that signature anywhere in the
program), minus what enclosing try-blocks catch.  Fixpoint over the call graph.  Every (function, type) keeps
one origin so that a report can print the call path down to the throw site.

Out of scope by stated policy (see DESIGN 3.5): std::bad_alloc / std::length_error from allocation, and
std::system_error from OS-resource failures (thread creation, mutex errors)."""
import re

from .build import AnalysisBroken

STD_EXC = {
    'std::exception': None,
    'std::logic_error': 'std::exception', 'std::runtime_error': 'std::exception',
    'std::invalid_argument': 'std::logic_error', 'std::out_of_range': 'std::logic_error', 'std::length_error': 'std::logic_error',
    'std::domain_error': 'std::logic_error', 'std::range_error': 'std::runtime_error', 'std::overflow_error': 'std::runtime_error',
    'std::underflow_error': 'std::runtime_error', 'std::system_error': 'std::runtime_error',
    'std::filesystem::filesystem_error': 'std::system_error', 'std::ios_base::failure': 'std::system_error',
    'std::bad_optional_access': 'std::exception', 'std::bad_variant_access': 'std::exception', 'std::bad_function_call': 'std::exception',
    'std::bad_cast': 'std::exception', 'std::bad_any_cast': 'std::bad_cast', 'std::bad_alloc': 'std::exception',
    'std::regex_error': 'std::runtime_error', 'std::future_error': 'std::logic_error', 'std::bad_weak_ptr': 'std::exception',
}

# (regex on resolved callee, thrown types, needs "no std::error_code parameter")
STD_THROWERS = [
    (re.compile(r'^std::(__cxx11::)?sto(i|l|ul|ll|ull|f|d|ld)$'), ('std::invalid_argument', 'std::out_of_range'), False),
    (re.compile(r'^std::(vector|array|deque|map|unordered_map|basic_string|basic_string_view|span)<.*>::at$'), ('std::out_of_range',), False),
    (re.compile(r'^std::optional<.*>::value$'), ('std::bad_optional_access',), False),
    (re.compile(r'^std::any_cast$'), ('std::bad_any_cast',), False),
    (re.compile(r'^std::filesystem::(absolute|canonical|weakly_canonical|relative|proximate|file_size|create_directories|create_directory|'
                r'remove|remove_all|rename|copy|copy_file|exists|is_directory|is_regular_file|current_path|last_write_time|resize_file|'
                r'space|status|symlink_status|temp_directory_path|equivalent|read_symlink|hard_link_count|is_empty|permissions)$'),
     ('std::filesystem::filesystem_error',), True),
    (re.compile(r'^std::filesystem::(recursive_)?directory_iterator::(recursive_)?directory_iterator$'), ('std::filesystem::filesystem_error',), True),
    (re.compile(r'^std::basic_regex<.*>::basic_regex$'), ('std::regex_error',), False),
]


def norm_type(t):
    t = (t or '').strip()
    t = re.sub(r'^const\s+', '', t)
    t = re.sub(r'\s*&+$', '', t).strip()
    t = re.sub(r'\s+const$', '', t)
    return t


class Escape:
    def __init__(self, P, excluded_types=('std::bad_alloc',), policy_excluded=None):
        self.P = P
        self.excluded = set(excluded_types)
        self.policy = policy_excluded or (lambda fn, node, typ: None)     # returns a reason string to exclude a throw site
        self.policy_hits = []
        self.bases = dict(STD_EXC)
        for q, r in P.records.items():
            b = r.get('bases') or []
            if b:
                self.bases[q] = b[0]
        self.fn_by_q = {}
        for f in P.fns:
            self.fn_by_q.setdefault(f.q, []).append(f)
        # std::function bindings: signature -> set of callable qnames
        self.bindings = {}
        self.binding_sites = []
        for f in P.fns:
            for i in f.walk():
                nd = f.nodes[i]
                c = nd.get('callee', '')
                if nd['k'] in ('CXXConstructExpr', 'CXXTemporaryObjectExpr', 'CXXOperatorCallExpr') and c.startswith('std::function<') and \
                        (c.endswith('::function') or c.endswith('::operator=')):
                    sig = c[len('std::function<'):c.rfind('>::')]
                    for j in f.walk(i):
                        jn = f.nodes[j]
                        tgt = None
                        if jn['k'] == 'LambdaExpr' and jn.get('fn'):
                            tgt = jn['fn']
                        elif jn['k'] == 'DeclRefExpr' and jn.get('dk') in ('Function', 'CXXMethod') and jn.get('q') in self.fn_by_q:
                            tgt = jn['q']
                        elif jn['k'] == 'DeclRefExpr' and jn.get('dk') == 'Var':
                            # a closure stored in a local first: auto cb = [..]{..}; loop.add(fd, cb);
                            for x in f.nodes:
                                if x['k'] == 'VarDecl' and x.get('d') == jn.get('d') and 'init' in x:
                                    ini = f.strip(x['init'])
                                    if f.nodes[ini]['k'] == 'LambdaExpr' and f.nodes[ini].get('fn'):
                                        tgt = f.nodes[ini]['fn']
                        if tgt:
                            self.bindings.setdefault(sig, set()).add(tgt)
                            self.binding_sites.append((sig, tgt, f.q))
        self.esc = {f.q: {} for f in P.fns}      # q -> {type: origin}
        self._solve()

    # ---- type hierarchy --------------------------------------------------------------------------
    def is_a(self, t, base):
        seen = set()
        while t is not None and t not in seen:
            if t == base:
                return True
            seen.add(t)
            t = self.bases.get(t)
        return False

    def catches(self, caught, thrown):
        if caught == '...':
            return True
        return self.is_a(thrown, norm_type(caught))

    # ---- per-call throwers ---------------------------------------------------------------------------
    def call_types(self, f, i):
        """{type: origin} thrown by the call node i itself (not its arguments)."""
        nd = f.nodes[i]
        c = nd.get('callee')
        out = {}
        if not c:
            return out
        if c in self.esc:
            for t in self.esc[c]:
                out[t] = ('call', c, f.loc(i))
            return out
        if c.startswith('std::function<') and c.endswith('::operator()'):
            sig = c[len('std::function<'):c.rfind('>::')]
            for tgt in self.bindings.get(sig, ()):
                for t in self.esc.get(tgt, {}):
                    out[t] = ('call', tgt, f.loc(i) + ' via std::function<%s>' % sig[:60])
            return out
        if c == 'std::get' and 'variant' in (nd.get('pt') or [''])[0]:
            ct = nd.get('ctargs', '')
            if not re.match(r'^\d+,', ct) or True:
                out['std::bad_variant_access'] = ('std', c, f.loc(i))
            return out
        if c.endswith('::at') and self._guarded_at(f, i):
            return out
        for rx_, types, need_no_ec in STD_THROWERS:
            if rx_.match(c):
                if need_no_ec and any('error_code' in p for p in (nd.get('pt') or [])):
                    continue
                for t in types:
                    out[t] = ('std', c, f.loc(i))
        return out

    def _guarded_at(self, f, i):
        """m.at(k) evaluated only when m.count(k) / m.contains(k) / m.find(k) != m.end() holds for the same m and k
        (conditional operator or if statement whose true branch contains the call)."""
        recv = f.receiver(i)
        args = f.call_args(i)
        if recv is None or not args:
            return False
        want = (f.text(recv), f.text(args[0]))
        node = i
        for a in f.ancestors(i):
            nd = f.nodes[a]
            if nd['k'] in ('ConditionalOperator', 'IfStmt') and nd.get('then') is not None and f.is_in(node, nd['then']):
                for j in f.walk(nd['cond']):
                    jn = f.nodes[j]
                    if jn['k'] == 'CXXMemberCallExpr' and jn.get('callee', '').split('::')[-1] in ('count', 'contains', 'find'):
                        r2 = f.receiver(j)
                        a2 = f.call_args(j)
                        if r2 is not None and a2 and (f.text(r2), f.text(a2[0])) == want:
                            return True
        return False

    def _eval(self, f, i, rethrow=None):
        """{type: origin} escaping the subtree rooted at i."""
        if i is None or i < 0:
            return {}
        nd = f.nodes[i]
        k = nd['k']
        if k == 'LambdaExpr':
            # the body is a separate function; capture initialisers are evaluated here
            out = {}
            for ch in f.kids(i):
                out.update(self._eval(f, ch, rethrow))
            return out
        if k == 'CXXTryStmt':
            body = self._eval(f, nd['try'], rethrow)
            remaining = dict(body)
            out = {}
            for h in nd.get('handlers', []):
                hn = f.nodes[h]
                caught = {t: o for t, o in remaining.items() if self.catches(hn.get('caught', '...'), t)}
                for t in caught:
                    del remaining[t]
                out.update(self._eval(f, hn.get('body'), rethrow=caught))
            out.update(remaining)
            return out
        out = {}
        if k == 'CXXThrowExpr':
            t = nd.get('thrown')
            if t == '<rethrow>':
                out.update(rethrow or {})
            else:
                t = norm_type(t)
                reason = self.policy(f, i, t)
                if reason:
                    self.policy_hits.append((f.q, f.loc(i), t, reason))
                elif t not in self.excluded:
                    out[t] = ('throw', f.q, f.loc(i))
        elif nd.get('callee'):
            for t, o in self.call_types(f, i).items():
                if t not in self.excluded:
                    out.setdefault(t, o)
        for ch in f.kids(i):
            for t, o in self._eval(f, ch, rethrow).items():
                out.setdefault(t, o)
        return out

    def _solve(self):
        changed = True
        rounds = 0
        while changed:
            changed = False
            rounds += 1
            if rounds > 60:
                raise AnalysisBroken('escape analysis did not converge')
            self.policy_hits = []
            for f in self.P.fns:
                roots = list(f.d.get('inits', [])) + [f.body]
                new = {}
                for r in roots:
                    if r is not None and r >= 0:
                        for t, o in self._eval(f, r).items():
                            new.setdefault(t, o)
                cur = self.esc[f.q]
                for t, o in new.items():
                    if t not in cur:
                        cur[t] = o
                        changed = True
        self.rounds = rounds

    # ---- reporting -----------------------------------------------------------------------------------
    def path(self, q, t, limit=12):
        """Call chain from q down to the throw site of type t."""
        out = []
        seen = set()
        while q in self.esc and t in self.esc[q] and q not in seen and limit > 0:
            limit -= 1
            seen.add(q)
            kind, nxt, loc = self.esc[q][t]
            if kind == 'throw':
                out.append('%s throws %s at %s' % (short(q), t, loc))
                break
            if kind == 'std':
                out.append('%s calls %s (may throw %s) at %s' % (short(q), nxt, t, loc))
                break
            out.append('%s -> %s at %s' % (short(q), short(nxt), loc))
            q = nxt
        return out

    def escape_of_subtree(self, f, node):
        return self._eval(f, node)


def short(q):
    return q.replace('ephemeralnet::', '').replace('(anonymous namespace)::', '')

"""N1 'linrel': forward abstract interpretation of selected functions over the exported AST with a
conjunction-of-linear-inequalities domain (sa/lin.py).  Nothing is executed: every program integer
is a linear form over symbols; a state is an environment + a constraint set; branching splits the
state; loops get an inductive invariant by candidate filtering (Houdini) over bounds and
constant-stride relations.  The interpreter raises *obligations* (memory access within its buffer,
span/iterator ranges) and reports for each whether the state entails it.

Unsupported constructs do not fail silently: they produce the value Unknown (so that obligations
depending on them cannot be proved) or raise Unsupported (analysis broken).
"""
import itertools
import re

from .build import AnalysisBroken
from .lin import Lin, Cons, as_lin
from .prog import int_type, WRAPPERS

MAX_STATES = 48
MAX_INLINE_DEPTH = 4


class Unsupported(AnalysisBroken):
    pass


# ---- abstract values ---------------------------------------------------------------------------
class Unknown:
    def __repr__(self):
        return '?'


UNK = Unknown()


class Ptr:
    """Pointer / iterator into buffer `buf` at element offset `off` (a Lin)."""
    def __init__(self, buf, off):
        self.buf, self.off = buf, as_lin(off)

    def __repr__(self):
        return '&%s[%r]' % (self.buf, self.off)


class Span:
    """View (span, string_view) of `buf` starting at `off` with `length` elements."""
    def __init__(self, buf, off, length):
        self.buf, self.off, self.length = buf, as_lin(off), as_lin(length)

    def __repr__(self):
        return 'span(%s,%r,%r)' % (self.buf, self.off, self.length)


class Obj:
    """Container object owning buffer `buf` (vector, string, std::array, C array)."""
    def __init__(self, buf):
        self.buf = buf

    def __repr__(self):
        return 'obj(%s)' % self.buf


class Opt:
    def __init__(self, has, value):
        self.has, self.value = has, value      # has: True / False / None(unknown)

    def __repr__(self):
        return 'opt(%s,%r)' % (self.has, self.value)


class Struct:
    def __init__(self, fields=None):
        self.f = dict(fields or {})

    def __repr__(self):
        return 'struct%r' % self.f


class Obligation:
    def __init__(self, kind, fn, node, desc, proved, ctx):
        self.kind, self.fn, self.node, self.desc, self.proved, self.ctx = kind, fn, node, desc, proved, ctx

    def site(self):
        return self.fn.loc(self.node)


class State:
    def __init__(self):
        self.env = {}          # var key -> value
        self.cons = Cons()
        self.lens = {}         # buffer id -> Lin length
        self.dead = False
        self.mem = {}          # (buffer id, offset key) -> symbol of the element read there (read-only buffers)
        self.facts = ()        # path facts: copies / comparisons of ranges seen on the way (tuples)

    def copy(self):
        s = State()
        s.env = dict(self.env)
        s.cons = self.cons.copy()
        s.lens = dict(self.lens)
        s.mem = dict(self.mem)
        s.facts = self.facts
        return s


_RATIO = {'std::ratio<1, 1000000000>': (1, 10 ** 9), 'std::ratio<1, 1000000>': (1, 10 ** 6), 'std::ratio<1, 1000>': (1, 1000),
          'std::ratio<1, 1>': (1, 1), 'std::ratio<60, 1>': (60, 1), 'std::ratio<3600, 1>': (3600, 1), 'std::ratio<86400, 1>': (86400, 1)}


def duration_ratio(t):
    """(num, den) of a std::chrono::duration type string, else None."""
    if t is None:
        return None
    m = re.search(r'std::chrono::duration<[^,]+, (std::ratio<\d+, \d+>)>', t)
    if m:
        return _RATIO.get(m.group(1))
    if re.search(r'std::chrono::duration<[^,<>]+>', t):
        return 1, 1            # the period defaults to std::ratio<1>
    return None


def is_duration(t):
    return t is not None and t.replace('const ', '').startswith('std::chrono::duration<')


def array_len(t):
    if t is None:
        return None
    m = re.match(r'(?:const )?std::array<.*, (\d+)>$', t.strip())
    if m:
        return int(m.group(1))
    m = re.match(r'.*\[(\d+)\]$', t.strip())
    if m:
        return int(m.group(1))
    return None


def type_range(t):
    it = int_type(t)
    if it is None:
        return None
    bits, signed = it
    if bits == 1:
        return 0, 1
    if signed:
        return -(1 << (bits - 1)), (1 << (bits - 1)) - 1
    return 0, (1 << bits) - 1


class Frame:
    _ids = itertools.count(1)

    def __init__(self, fn, depth, this=None):
        self.id = next(Frame._ids)
        self.fn = fn
        self.depth = depth
        self.this = this
        self.returns = []      # [(state, value)]


class Flow:
    """Outcome of executing a statement on a list of states."""
    def __init__(self, normal=None):
        self.normal = normal or []
        self.brk = []
        self.cont = []


def _pow2_divisor(x):
    """Largest k <= 32 such that every coefficient and the constant of x are multiples of 2^k (0 for none / constant 0)."""
    vals = list(x.t.values()) + ([x.c] if x.c != 0 else [])
    if not vals or any(v.denominator != 1 for v in vals):
        return 0
    k = 0
    while k < 32 and all(int(v) % (1 << (k + 1)) == 0 for v in vals):
        k += 1
    return k


class Interp:
    def __init__(self, prog, inline=None, param_pairs=None, trace=False):
        self.P = prog
        self.obls = []
        self._sym = itertools.count(1)
        self.inline_ok = inline        # predicate(qname) or None = every repo function with a body
        self.notes = []
        self.trace = trace
        self.throws = []               # [(fn, node, thrown type)]
        self.unsupported = []

    # ---- symbols ---------------------------------------------------------------------------
    def fresh(self, st, hint='t', t=None, lo=None, hi=None):
        name = '%s%d' % (re.sub(r'[^A-Za-z0-9_]', '_', hint)[:18], next(self._sym))
        s = Lin.sym(name)
        r = type_range(t) if t else None
        if r:
            lo = r[0] if lo is None else max(lo, r[0])
            hi = r[1] if hi is None else min(hi, r[1])
        if lo is not None:
            st.cons.add_le(Lin.const(lo) - s)
        if hi is not None:
            st.cons.add_le(s - hi)
        return s

    def fresh_len(self, st):
        """Unknown container length: at most PTRDIFF_MAX (max_size of every standard container)."""
        return self.fresh(st, 'len', 'unsigned long', hi=(1 << 63) - 1)

    def fresh_for_type(self, st, t, hint='v'):
        """A value about which nothing is known except its type."""
        if t is None:
            return UNK
        tt = t.replace('const ', '').strip()
        if int_type(tt) is not None:
            return self.fresh(st, hint, tt)
        if is_duration(tt):
            return self.fresh(st, hint, 'long')
        n = array_len(tt)
        if n is not None:
            b = 'arr_%s%d' % (hint, next(self._sym))
            st.lens[b] = Lin.const(n)
            return Obj(b)
        if tt.startswith(('std::vector<', 'std::basic_string<', 'std::deque<')):
            b = 'buf_%s%d' % (hint, next(self._sym))
            st.lens[b] = self.fresh_len(st)
            return Obj(b)
        if tt.startswith(('std::span<', 'std::basic_string_view<')):
            b = 'buf_%s%d' % (hint, next(self._sym))
            ln = self.fresh_len(st)
            st.lens[b] = ln
            return Span(b, 0, ln)
        if tt.startswith('std::optional<'):
            return Opt(None, UNK)
        return UNK

    # ---- obligations -----------------------------------------------------------------------
    def oblige(self, kind, fn, node, st, checks, desc):
        """checks: list of Lin e meaning `e <= 0` must hold."""
        ok = True
        for e in checks:
            if e is None or not st.cons.entails_le(e):
                ok = False
                break
        self.obls.append(Obligation(kind, fn, node, desc, ok, None if ok else self._ctx(st, checks)))
        return ok

    def _ctx(self, st, checks):
        syms = set()
        for e in checks:
            if e is not None:
                syms |= e.syms()
        from .lin import _cone
        rel = _cone(st.cons.cs, syms)
        return {'need': ['%r <= 0' % e for e in checks if e is not None], 'known': ['%r <= 0' % c for c in rel[:14]]}

    def access(self, fn, node, st, buf, off, count, what):
        """Obligation: elements [off, off+count) lie inside buffer `buf`."""
        ln = st.lens.get(buf)
        off = as_lin(off)
        count = as_lin(count)
        checks = [-off, -count, (off + count - ln) if ln is not None else None]
        return self.oblige('bound', fn, node, st, checks, '%s: [%r, +%r) within %s (len %r)' % (what, off, count, buf, ln))

    # ---- keys --------------------------------------------------------------------------------
    def lkey(self, fn, node, frame):
        """Key of an lvalue expression: local variable or member path rooted at a local / this."""
        n = fn.strip(node, casts=False)
        nd = fn.nodes[n]
        k = nd['k']
        if k == 'DeclRefExpr':
            if nd.get('g'):
                return ('g', nd.get('q'))
            if nd.get('static'):
                return ('s', nd['d'])
            return ('v', frame.id, nd['d'])
        if k == 'MemberExpr':
            ks = fn.kids(n)
            if not ks:
                return ('m', frame.id, 'this', nd['n'])
            base = self.lkey(fn, ks[0], frame)
            if base is None:
                return None
            return base + ('.' + nd['n'],)
        if k == 'CXXThisExpr':
            return ('this', frame.this if frame.this is not None else frame.id)
        if k in ('ImplicitCastExpr', 'CXXStaticCastExpr') and fn.kids(n):
            return self.lkey(fn, fn.kids(n)[0], frame)
        if k == 'UnaryOperator' and nd.get('op') == '*':
            inner = fn.strip(fn.kids(n)[0])
            if fn.nodes[inner]['k'] == 'CXXThisExpr':
                return ('this', frame.this if frame.this is not None else frame.id)
        if k == 'CXXOperatorCallExpr' and nd.get('op') in ('*', '->') and len(fn.kids(n)) >= 2:
            b = self.lkey(fn, fn.kids(n)[1], frame)
            return (b + ('*',)) if b else None
        return None

    def kill_prefix(self, st, key):
        """Forget everything stored under an lvalue key (the object was overwritten / escaped)."""
        for k in [k for k in st.env if k[:len(key)] == key and k != key]:
            del st.env[k]

    # ---- reading / writing lvalues ---------------------------------------------------------
    def read_lvalue(self, fn, node, st, fr):
        key = self.lkey(fn, node, fr)
        nd = fn.nodes[fn.strip(node, casts=False)]
        if key is not None and key in st.env:
            return st.env[key]
        if 'cv' in nd:
            return Lin.const(int(nd['cv']))
        # member of a struct value held in the environment
        n = fn.strip(node, casts=False)
        if nd['k'] == 'MemberExpr' and fn.kids(n):
            bkey = self.lkey(fn, fn.kids(n)[0], fr)
            if bkey is not None and isinstance(st.env.get(bkey), Struct) and nd['n'] in st.env[bkey].f:
                return st.env[bkey].f[nd['n']]
        v = self.fresh_for_type(st, nd.get('t'), nd.get('n', 'v'))
        if key is not None and not isinstance(v, Unknown):
            st.env[key] = v       # repeated reads see the same symbol until it is written
        return v

    def write_lvalue(self, fn, node, st, fr, val):
        key = self.lkey(fn, node, fr)
        if key is None:
            return
        self.kill_prefix(st, key)
        if isinstance(val, Unknown):
            nd = fn.nodes[fn.strip(node, casts=False)]
            val = self.fresh_for_type(st, nd.get('t'), nd.get('n', 'w'))
        if isinstance(val, Unknown):
            st.env.pop(key, None)
        else:
            st.env[key] = val

    # ---- integer helpers ----------------------------------------------------------------------
    def fit(self, st, val, t, hint='c'):
        """Value converted to integer type t: kept when provably in range, otherwise unknown in range."""
        r = type_range(t)
        if not isinstance(val, Lin):
            return self.fresh(st, hint, t) if r else val
        if r is None:
            return val
        lo, hi = r
        if st.cons.entails_le(Lin.const(lo) - val) and st.cons.entails_le(val - hi):
            return val
        return self.fresh(st, hint, t)

    def const_bounds(self, st, val):
        """(lo, hi) when the value is a constant or has entailed constant bounds among a few candidates."""
        if not isinstance(val, Lin):
            return None
        if val.is_const():
            return int(val.c), int(val.c)
        lo = hi = None
        for cand in (0, 1, 3, 7, 15, 31, 63, 64, 127, 255, 256, 65535, (1 << 31) - 1, (1 << 32) - 1):
            if hi is None and st.cons.entails_le(val - cand):
                hi = cand
            if st.cons.entails_le(Lin.const(cand) - val):
                lo = cand
        if lo is None and st.cons.entails_le(-val):
            lo = 0
        if lo is None or hi is None:
            return None
        return lo, hi

    def arith(self, fn, n, st, op, a, b, t):
        """Integer binary operator at result type t."""
        if isinstance(a, Ptr) and isinstance(b, Lin) and op in ('+', '-'):
            return Ptr(a.buf, a.off + b if op == '+' else a.off - b)
        if isinstance(b, Ptr) and isinstance(a, Lin) and op == '+':
            return Ptr(b.buf, b.off + a)
        if isinstance(a, Ptr) and isinstance(b, Ptr) and op == '-' and a.buf == b.buf:
            return a.off - b.off
        if not (isinstance(a, Lin) and isinstance(b, Lin)):
            return self.fresh(st, 'op', t) if type_range(t) else UNK
        r = None
        if op == '+':
            r = a + b
        elif op == '-':
            r = a - b
        elif op == '*':
            r = a * b
        elif op in ('/', '%'):
            if b.is_const() and b.c > 0 and st.cons.entails_le(-a):
                c = int(b.c)
                q = self.fresh(st, 'q', None, lo=0)
                st.cons.add_le(q.scale(c) - a)                 # c*q <= a
                st.cons.add_le(a - q.scale(c) - (c - 1))       # a - c*q <= c-1
                r = q if op == '/' else a - q.scale(c)
            elif op == '%' and b.is_const() and b.c > 0:
                # C++ remainder of a possibly negative dividend: |r| < c (sign follows the dividend)
                c = int(b.c)
                r = self.fresh(st, 'rem', None, lo=-(c - 1), hi=c - 1)
                if st.cons.entails_le(a):
                    st.cons.add_le(r)
        elif op == '<<':
            if b.is_const() and 0 <= b.c < 63:
                r = a.scale(1 << int(b.c))
        elif op == '>>':
            if b.is_const() and 0 <= b.c < 63 and st.cons.entails_le(-a):
                c = 1 << int(b.c)
                q = self.fresh(st, 'sh', None, lo=0)
                st.cons.add_le(q.scale(c) - a)
                st.cons.add_le(a - q.scale(c) - (c - 1))
                r = q
        elif op == '&':
            for x, y in ((a, b), (b, a)):
                if y.is_const() and y.c >= 0:
                    m = int(y.c)
                    if x.is_const():
                        return Lin.const(int(x.c) & m)
                    s = self.fresh(st, 'and', None, lo=0, hi=m)
                    if st.cons.entails_le(-x):
                        st.cons.add_le(s - x)
                    return s
        elif op in ('|', '^'):
            for x, y in ((a, b), (b, a)):
                # x is a multiple of 2^k and 0 <= y < 2^k: the bits are disjoint, so x | y == x ^ y == x + y
                k2 = _pow2_divisor(x)
                if k2 and st.cons.entails_le(-y) and st.cons.entails_le(y - ((1 << k2) - 1)) and st.cons.entails_le(-x):
                    return self.fit(st, x + y, t, 'w')
            ba, bb = self.const_bounds(st, a), self.const_bounds(st, b)
            if a.is_const() and b.is_const():
                return Lin.const(int(a.c) | int(b.c) if op == '|' else int(a.c) ^ int(b.c))
            if ba and bb and ba[0] >= 0 and bb[0] >= 0:
                hi = (1 << max(ba[1].bit_length(), bb[1].bit_length())) - 1
                return self.fresh(st, 'or', t, lo=0, hi=hi)
        if r is None:
            return self.fresh(st, 'op', t) if type_range(t) else UNK
        return self.fit(st, r, t, 'w')

    # ---- expressions -----------------------------------------------------------------------------
    def evs(self, fn, nodes, st, fr):
        """Evaluate expressions left to right: [(state, [values])]."""
        acc = [(st, [])]
        for n in nodes:
            nxt = []
            for s, vals in acc:
                for s2, v in self.ev(fn, n, s, fr):
                    nxt.append((s2, vals + [v]))
            acc = nxt
        return acc

    def ev(self, fn, n, st, fr):
        if n is None or n < 0:
            return [(st, UNK)]
        nd = fn.nodes[n]
        k = nd['k']
        ks = fn.kids(n)
        t = nd.get('t')
        # constants folded by clang (no side effects)
        if 'cv' in nd and k not in ('DeclRefExpr', 'MemberExpr') and not nd.get('lv'):
            return [(st, Lin.const(int(nd['cv'])))]
        if k in ('ParenExpr', 'ExprWithCleanups', 'MaterializeTemporaryExpr', 'CXXBindTemporaryExpr', 'ConstantExpr',
                 'SubstNonTypeTemplateParmExpr', 'CXXRewrittenBinaryOperator', 'CXXDefaultArgExpr', 'CXXDefaultInitExpr'):
            return self.ev(fn, ks[0], st, fr) if ks else [(st, UNK)]
        if k in ('IntegerLiteral', 'CharacterLiteral', 'CXXBoolLiteralExpr'):
            return [(st, Lin.const(int(nd['v'])))]
        if k == 'StringLiteral':
            b = 'str%d' % next(self._sym)
            st.lens[b] = Lin.const(len(nd.get('s', '')) + 1)
            return [(st, Obj(b))]
        if k in ('DeclRefExpr', 'MemberExpr'):
            if 'cv' in nd and not nd.get('lv'):
                return [(st, Lin.const(int(nd['cv'])))]
            if k == 'DeclRefExpr' and nd.get('dk') in ('Function', 'CXXMethod'):
                return [(st, UNK)]
            if k == 'MemberExpr' and nd.get('mk') != 'Field':
                return [(st, UNK)]
            if k == 'MemberExpr' and ks:
                # evaluate the base for its side effects / obligations when it is not a plain path
                if self.lkey(fn, n, fr) is None:
                    out = []
                    for s, bv in self.ev(fn, ks[0], st, fr):
                        if isinstance(bv, Struct) and nd['n'] in bv.f:
                            out.append((s, bv.f[nd['n']]))
                        elif isinstance(bv, Opt) and isinstance(bv.value, Struct) and nd['n'] in bv.value.f:
                            out.append((s, bv.value.f[nd['n']]))
                        else:
                            out.append((s, self.fresh_for_type(s, t, nd['n'])))
                    return out
            return [(st, self.read_lvalue(fn, n, st, fr))]
        if k == 'CXXThisExpr':
            return [(st, UNK)]
        if k in ('ImplicitCastExpr', 'CXXStaticCastExpr', 'CStyleCastExpr', 'CXXFunctionalCastExpr', 'CXXReinterpretCastExpr', 'CXXConstCastExpr'):
            return self.ev_cast(fn, n, st, fr)
        if k == 'UnaryOperator':
            return self.ev_unary(fn, n, st, fr)
        if k in ('BinaryOperator', 'CompoundAssignOperator'):
            return self.ev_binary(fn, n, st, fr)
        if k == 'ConditionalOperator':
            tr, fa = self.cond(fn, nd['cond'], st, fr)
            out = []
            for s in tr:
                out += self.ev(fn, nd['then'], s, fr)
            for s in fa:
                out += self.ev(fn, nd['else'], s, fr)
            return out
        if k == 'ArraySubscriptExpr':
            out = []
            for s, (b, i) in self.evs(fn, ks[:2], st, fr):
                out.append((s, self.index(fn, n, s, b, i, t)))
            return out
        if k in ('CallExpr', 'CXXMemberCallExpr', 'CXXOperatorCallExpr'):
            return self.ev_call(fn, n, st, fr)
        if k in ('CXXConstructExpr', 'CXXTemporaryObjectExpr'):
            return self.ev_construct(fn, n, st, fr)
        if k == 'InitListExpr':
            out = []
            for s, vals in self.evs(fn, ks, st, fr):
                if len(vals) == 1 and (int_type(t) is not None or is_duration(t)):
                    out.append((s, vals[0]))
                elif not vals and (int_type(t) is not None or is_duration(t)):
                    out.append((s, Lin.const(0)))
                else:
                    out.append((s, self.fresh_for_type(s, t, 'init') if not vals else UNK))
            return out
        if k in ('ImplicitValueInitExpr', 'CXXScalarValueInitExpr'):
            if int_type(t) is not None:
                return [(st, Lin.const(0))]
            return [(st, self.fresh_for_type(st, t, 'zero'))]
        if k == 'CXXThrowExpr':
            for s, _v in self.evs(fn, ks, st, fr):
                self.throws.append((fn, n, nd.get('thrown')))
                if getattr(self, 'throw_hook', None) is not None and getattr(self, 'recording', True):
                    self.throw_hook(fn, n, s, fr)
            return []
        if k == 'UnaryExprOrTypeTraitExpr':
            return [(st, UNK)]
        if k in ('LambdaExpr', 'CXXNullPtrLiteralExpr', 'FloatingLiteral', 'CXXNewExpr', 'CXXDeleteExpr', 'PredefinedExpr',
                 'CXXStdInitializerListExpr', 'CXXTypeidExpr', 'GNUNullExpr', 'CXXPseudoDestructorExpr', 'PackExpansionExpr',
                 'CXXInheritedCtorInitExpr', 'ArrayInitLoopExpr', 'OpaqueValueExpr', 'CXXNoexceptExpr', 'TypeTraitExpr',
                 'SizeOfPackExpr', 'CXXFoldExpr', 'BinaryConditionalOperator', 'StmtExpr', 'AtomicExpr', 'CompoundLiteralExpr'):
            # sub-expressions may still contain accesses: evaluate them for their obligations
            out = self.evs(fn, [c for c in ks if fn.nodes[c]['k'] != 'LambdaExpr'], st, fr) if k != 'LambdaExpr' else [(st, [])]
            return [(s, UNK) for s, _ in out]
        self.unsupported.append('%s at %s' % (k, fn.loc(n)))
        return [(st, UNK)]

    def index(self, fn, n, st, base, idx, t, what='index'):
        if isinstance(base, Obj):
            base = Ptr(base.buf, 0)
        if isinstance(base, Span):
            if isinstance(idx, Lin):
                self.oblige('bound', fn, n, st, [-idx, idx + 1 - base.length], '%s %r within view of length %r' % (what, idx, base.length))
                return self.element(st, base.buf, base.off + idx, t)
            else:
                self.oblige('bound', fn, n, st, [None], '%s with unknown index' % what)
            return self.fresh_for_type(st, t, 'elem')
        if isinstance(base, Ptr) and isinstance(idx, Lin):
            self.access(fn, n, st, base.buf, base.off + idx, 1, what)
            return self.element(st, base.buf, base.off + idx, t)
        else:
            self.oblige('bound', fn, n, st, [None], '%s through an untracked pointer/index (%r, %r)' % (what, base, idx))
        return self.fresh_for_type(st, t, 'elem')

    def element(self, st, buf, off, t):
        """Value of the element at buf[off]: elements of const-qualified integer type read twice give the same symbol."""
        tt = (t or '')
        if tt.startswith('const ') and int_type(tt.replace('const ', '').strip()) is not None and isinstance(off, Lin):
            key = (buf, off.key())
            if key not in st.mem:
                # deterministic name: the same location read on two paths is the same symbol (joins then keep relations)
                sym = Lin.sym('m[%s%s%r]' % (buf, '+' if True else '', off))
                r = type_range(tt.replace('const ', '').strip())
                st.cons.add_le(Lin.const(r[0]) - sym)
                st.cons.add_le(sym - r[1])
                st.mem[key] = sym
            return st.mem[key]
        return self.fresh_for_type(st, t, 'elem')

    def ev_cast(self, fn, n, st, fr):
        nd = fn.nodes[n]
        ks = fn.kids(n)
        ck = nd.get('ck')
        t = nd.get('t')
        out = []
        for s, v in self.ev(fn, ks[0], st, fr):
            if ck in ('LValueToRValue', 'NoOp', 'ConstructorConversion', 'UserDefinedConversion', 'DerivedToBase', 'UncheckedDerivedToBase'):
                out.append((s, v))
            elif ck == 'ArrayToPointerDecay':
                out.append((s, Ptr(v.buf, 0) if isinstance(v, Obj) else UNK))
            elif ck in ('IntegralCast', 'BooleanToSignedIntegral'):
                out.append((s, self.fit(s, v, t, 'cast')))
            elif ck in ('IntegralToBoolean', 'PointerToBoolean', 'FloatingToBoolean', 'MemberPointerToBoolean'):
                out.append((s, self.fresh(s, 'b', 'bool')))
            elif ck == 'BitCast':
                # pointer reinterpretation between byte-sized element types keeps offsets
                ft = fn.nodes[ks[0]].get('t', '')
                bytey = lambda x: any(b in x for b in ('char', 'unsigned char', 'signed char', 'std::byte', 'void'))
                out.append((s, v if isinstance(v, Ptr) and bytey(ft) and bytey(t or '') else UNK))
            elif ck in ('FloatingToIntegral', 'IntegralToFloating', 'FloatingCast'):
                out.append((s, self.fresh(s, 'f2i', t) if type_range(t) else UNK))
            elif ck in ('NullToPointer', 'FunctionToPointerDecay', 'BuiltinFnToFnPtr', 'ToVoid', 'Dependent'):
                out.append((s, UNK))
            else:
                out.append((s, UNK))
        return out

    def ev_unary(self, fn, n, st, fr):
        nd = fn.nodes[n]
        op = nd.get('op')
        c = fn.kids(n)[0]
        t = nd.get('t')
        if op in ('++', '--'):
            out = []
            for s, v in self.ev(fn, c, st, fr):
                ct = fn.nodes[c].get('t')
                if isinstance(v, Lin):
                    nv = self.fit(s, v + (1 if op == '++' else -1), ct, 'inc')
                elif isinstance(v, Ptr):
                    nv = Ptr(v.buf, v.off + (1 if op == '++' else -1))
                else:
                    nv = UNK
                self.write_lvalue(fn, c, s, fr, nv)
                out.append((s, v if nd.get('postfix') else nv))
            return out
        out = []
        for s, v in self.ev(fn, c, st, fr):
            if op == '-':
                out.append((s, self.fit(s, -v, t, 'neg') if isinstance(v, Lin) else UNK))
            elif op == '+':
                out.append((s, v))
            elif op == '!':
                if isinstance(v, Lin) and v.is_const():
                    out.append((s, Lin.const(0 if v.c != 0 else 1)))
                else:
                    out.append((s, self.fresh(s, 'not', 'bool')))
            elif op == '~':
                out.append((s, self.fresh(s, 'inv', t) if type_range(t) else UNK))
            elif op == '*':
                if isinstance(v, Ptr):
                    self.access(fn, n, s, v.buf, v.off, 1, 'dereference')
                    out.append((s, self.element(s, v.buf, v.off, t)))
                elif isinstance(v, Opt):
                    out.append((s, v.value if not isinstance(v.value, Unknown) else self.fresh_for_type(s, t, 'optv')))
                else:
                    inner = fn.strip(c)
                    if fn.nodes[inner]['k'] != 'CXXThisExpr' and 'unsigned char' in (fn.nodes[c].get('t') or ''):
                        self.oblige('bound', fn, n, s, [None], 'dereference of an untracked byte pointer')
                    out.append((s, self.fresh_for_type(s, t, 'deref')))
            elif op == '&':
                inner = fn.strip(c, casts=False)
                ind = fn.nodes[inner]
                if ind['k'] == 'ArraySubscriptExpr' and isinstance(v, Unknown) is not None:
                    res = self.evs(fn, fn.kids(inner)[:2], s, fr)
                    b, i = res[0][1] if res else (UNK, UNK)
                    if isinstance(b, Obj):
                        b = Ptr(b.buf, 0)
                    out.append((s, Ptr(b.buf, b.off + i) if isinstance(b, Ptr) and isinstance(i, Lin) else UNK))
                else:
                    # address of a scalar local: a one-element buffer
                    key = self.lkey(fn, c, fr)
                    if key is not None:
                        b = 'addr_%s' % '_'.join(str(x) for x in key[-2:])
                        s.lens[b] = Lin.const(1)
                        s.env.pop(key, None)        # may be written through the pointer
                        self.kill_prefix(s, key)
                        out.append((s, Ptr(b, 0)))
                    else:
                        out.append((s, UNK))
            else:
                out.append((s, UNK))
        return out

    def ev_binary(self, fn, n, st, fr):
        nd = fn.nodes[n]
        op = nd.get('op')
        l, r = fn.kids(n)
        t = nd.get('t')
        if op in ('&&', '||', '<', '>', '<=', '>=', '==', '!='):
            tr, fa = self.cond(fn, n, st, fr)
            return [(s, Lin.const(1)) for s in tr] + [(s, Lin.const(0)) for s in fa]
        if op == ',':
            out = []
            for s, _ in self.ev(fn, l, st, fr):
                out += self.ev(fn, r, s, fr)
            return out
        if op == '=':
            out = []
            for s, v in self.ev(fn, r, st, fr):
                for s2, _lv in self.ev_lhs(fn, l, s, fr):
                    if isinstance(v, Lin):
                        v = self.fit(s2, v, fn.nodes[l].get('t'), 'asg')
                    self.store(fn, l, s2, fr, v)
                    out.append((s2, v))
            return out
        if op.endswith('=') and len(op) >= 2 and op not in ('==', '!=', '<=', '>='):
            bop = op[:-1]
            out = []
            for s, (a, b) in self.evs(fn, [l, r], st, fr):
                lt = fn.nodes[l].get('t')
                ct = nd.get('ct') or lt
                v = self.arith(fn, n, s, bop, a, b, ct)
                if isinstance(v, Lin):
                    v = self.fit(s, v, lt, 'casg')
                self.store(fn, l, s, fr, v)
                out.append((s, v))
            return out
        out = []
        for s, (a, b) in self.evs(fn, [l, r], st, fr):
            out.append((s, self.arith(fn, n, s, op, a, b, t)))
        return out

    def ev_lhs(self, fn, l, st, fr):
        """Evaluate the sub-expressions of an assignment target (index expressions) for their obligations."""
        n = fn.strip(l, casts=False)
        nd = fn.nodes[n]
        if nd['k'] in ('DeclRefExpr', 'MemberExpr') and self.lkey(fn, n, fr) is not None:
            return [(st, None)]
        if nd['k'] in ('ArraySubscriptExpr', 'CXXOperatorCallExpr', 'UnaryOperator', 'CXXMemberCallExpr', 'MemberExpr'):
            return [(s, v) for s, v in self.ev(fn, n, st, fr)]
        return [(st, None)]

    def store(self, fn, l, st, fr, v):
        if self.lkey(fn, l, fr) is not None:
            self.write_lvalue(fn, l, st, fr, v)

    # ---- conditions ---------------------------------------------------------------------------------
    def cond(self, fn, n, st, fr):
        """Split a state on a boolean expression: (true states, false states)."""
        from .match import comparison
        n0 = n
        n = fn.strip(n, casts=False)
        nd = fn.nodes[n]
        k = nd['k']
        if k == 'ImplicitCastExpr' and nd.get('ck') in ('IntegralToBoolean', 'LValueToRValue', 'NoOp', 'UserDefinedConversion', 'PointerToBoolean'):
            inner = fn.kids(n)[0]
            if nd.get('ck') in ('IntegralToBoolean',):
                tr, fa = [], []
                for s, v in self.ev(fn, inner, st, fr):
                    self._split_nonzero(s, v, tr, fa)
                return tr, fa
            return self.cond(fn, inner, st, fr)
        if 'cv' in nd and k not in ('DeclRefExpr', 'MemberExpr'):
            return ([st], []) if int(nd['cv']) != 0 else ([], [st])
        if k == 'UnaryOperator' and nd.get('op') == '!':
            tr, fa = self.cond(fn, fn.kids(n)[0], st, fr)
            return fa, tr
        if k == 'BinaryOperator' and nd.get('op') == '&&':
            a, b = fn.kids(n)
            tr1, fa1 = self.cond(fn, a, st, fr)
            tr, fa = [], list(fa1)
            for s in tr1:
                t2, f2 = self.cond(fn, b, s, fr)
                tr += t2
                fa += f2
            return tr, fa
        if k == 'BinaryOperator' and nd.get('op') == '||':
            a, b = fn.kids(n)
            tr1, fa1 = self.cond(fn, a, st, fr)
            tr, fa = list(tr1), []
            for s in fa1:
                t2, f2 = self.cond(fn, b, s, fr)
                tr += t2
                fa += f2
            return tr, fa
        c = comparison(fn, n)
        if c is not None:
            op, a, b = c
            tr, fa = [], []
            for s, (va, vb) in self.evs(fn, [a, b], st, fr):
                if isinstance(va, Ptr) and isinstance(vb, Ptr) and va.buf == vb.buf:
                    va, vb = va.off, vb.off
                if isinstance(va, Lin) and isinstance(vb, Lin):
                    d = va - vb
                    st_t, st_f = s.copy(), s
                    if op == '<':
                        st_t.cons.add_lt(d); st_f.cons.add_le(-d)
                    elif op == '<=':
                        st_t.cons.add_le(d); st_f.cons.add_lt(-d)
                    elif op == '>':
                        st_t.cons.add_lt(-d); st_f.cons.add_le(d)
                    elif op == '>=':
                        st_t.cons.add_le(-d); st_f.cons.add_lt(d)
                    elif op in ('==', '!='):
                        # disequality is not convex: it is the union of d < 0 and d > 0 (two states)
                        eq_s, ne_lo = st_t, st_f
                        ne_hi = s.copy()
                        eq_s.cons.add_eq(d)
                        ne_lo.cons.add_lt(d)
                        ne_hi.cons.add_lt(-d)
                        eqs = [eq_s] if not eq_s.cons.is_unsat() else []
                        nes = [x for x in (ne_lo, ne_hi) if not x.cons.is_unsat()]
                        if op == '==':
                            tr += eqs
                            fa += nes
                        else:
                            tr += nes
                            fa += eqs
                        continue
                    if not st_t.cons.is_unsat():
                        tr.append(st_t)
                    if not st_f.cons.is_unsat():
                        fa.append(st_f)
                else:
                    tr.append(s.copy())
                    fa.append(s)
            return tr, fa
        # optional tests and generic boolean values
        if k == 'CXXMemberCallExpr' and nd.get('callee', '').split('::')[-1] in ('has_value', 'operator bool') and 'optional<' in nd.get('callee', ''):
            recv = fn.receiver(n)
            tr, fa = [], []
            for s, v in self.ev(fn, fn.kids(fn.strip(fn.kids(n)[0]))[0], st, fr):
                key = self.lkey(fn, recv, fr) if recv is not None else None
                if isinstance(v, Opt) and v.has is True:
                    tr.append(s)
                elif isinstance(v, Opt) and v.has is False:
                    fa.append(s)
                else:
                    s2 = s.copy()
                    val = v.value if isinstance(v, Opt) else UNK
                    if key is not None:
                        s.env[key] = Opt(True, val)
                        s2.env[key] = Opt(False, UNK)
                    tr.append(s)
                    fa.append(s2)
            return tr, fa
        tr, fa = [], []
        for s, v in self.ev(fn, n0, st, fr):
            self._split_nonzero(s, v, tr, fa)
        return tr, fa

    def _split_nonzero(self, s, v, tr, fa):
        if isinstance(v, Lin):
            if v.is_const():
                (tr if v.c != 0 else fa).append(s)
                return
            st_f = s.copy()
            st_f.cons.add_eq(v)
            if not st_f.cons.is_unsat():
                fa.append(st_f)
            st_t = s
            if st_t.cons.entails_le(-v):
                st_t.cons.add_lt(-v)
            elif st_t.cons.entails_le(v):
                st_t.cons.add_lt(v)
            if not st_t.cons.is_unsat():
                tr.append(st_t)
        else:
            tr.append(s.copy())
            fa.append(s)

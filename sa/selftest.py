"""Checker self-validation (thorough tier): every rule must fire on seeded variants of the sources.

selftest/<pid>/*.patch are small diffs against /repo (gate deleted, release dropped, operator flipped,
the reverse of a fix …).  Each is applied to a scratch copy of src/ + include/ under .work/, the same
property check is run on the copy (the analyzer on modified source — EphemeralNet is not executed),
and a violation is required.  A patch that no longer applies is reported as skipped.
Patches named benign-*.patch are behaviour-preserving edits (renames, reordering): on those the check must stay silent."""
import glob
import importlib
import os
import shutil
import subprocess

from . import build
from .build import AnalysisBroken, VERIF, WORK


def make_overlay(tag):
    ov = os.path.join(WORK, 'overlay-%s-%d' % (tag, os.getpid()))
    os.makedirs(WORK, exist_ok=True)
    if os.path.exists(ov):
        shutil.rmtree(ov)
    os.makedirs(ov)
    for sub in ('src', 'include', 'cmake'):
        s = os.path.join(build.REPO, sub)
        if os.path.isdir(s):
            shutil.copytree(s, os.path.join(ov, sub))
    shutil.copy(os.path.join(build.REPO, 'CMakeLists.txt'), ov)
    return ov


def apply_patch(ov, patch):
    r = subprocess.run(['patch', '-p1', '-s', '-f', '--no-backup-if-mismatch', '-d', ov, '-i', patch],
                       capture_output=True, text=True)
    return r.returncode == 0


def expectations(patch):
    exp = []
    with open(patch, errors='replace') as f:
        for ln in f:
            if ln.startswith('# expect:'):
                exp.append(ln[len('# expect:'):].strip())
            if ln.startswith('--- '):
                break
    return exp


def run_variant(pid, patch):
    from .ctx import Check
    ov = make_overlay(pid + '-' + os.path.basename(patch).replace('.patch', ''))
    try:
        if not apply_patch(ov, patch):
            return {'patch': os.path.basename(patch), 'status': 'skipped (does not apply to the current tree)'}
        mod = importlib.import_module('props.' + pid)
        ck = Check(pid, tier='quick', level=getattr(mod, 'LEVEL', 'other'), repo=ov, quiet=True)
        try:
            try:
                mod.run(ck)
            except AnalysisBroken:
                if not ck.new_violations():
                    raise
            ck.finish()
            new = [o.key for o in ck.result['new']]
            status = 'detected' if new else 'MISSED'
        except AnalysisBroken as e:
            new = ['analysis-broken: %s' % e]
            status = 'detected (analysis broken)'
        exp = expectations(patch)
        if os.path.basename(patch).startswith('benign-'):
            # behaviour-preserving edit (rename, reorder, extract helper): the check must stay silent
            status = 'silent (as required)' if not new else 'FALSE-ALARM on a behaviour-preserving edit'
            return {'patch': os.path.basename(patch), 'status': status, 'reported': new[:6]}
        if status == 'detected' and exp and not all(any(x in k for k in new) for x in exp):
            status = 'MISSED (violations reported, but not the seeded instance %s)' % exp
        return {'patch': os.path.basename(patch), 'status': status, 'reported': new[:6]}
    finally:
        shutil.rmtree(ov, ignore_errors=True)


def run_renamed_tree(pid):
    """The check on a whole-tree variant with every local and parameter renamed: it must stay silent."""
    from .ctx import Check
    from . import benign
    try:
        ov, n = benign.renamed_tree()
    except Exception as e:       # noqa
        return {'patch': 'benign-renamed-tree (generated)', 'status': 'inconclusive (renamed variant could not be built: %r)' % e, 'reported': []}
    mod = importlib.import_module('props.' + pid)
    ck = Check(pid, tier='quick', level=getattr(mod, 'LEVEL', 'other'), repo=ov, quiet=True)
    try:
        mod.run(ck)
        ck.finish()
        new = [o.key for o in ck.result['new']]
    except AnalysisBroken as e:
        # the textual renamer can produce a tree that does not parse (name clash) or loses an anchor: inconclusive, not an alarm
        return {'patch': 'benign-renamed-tree (generated)', 'status': 'inconclusive (renamed variant could not be analysed: %s)' % str(e)[:160], 'reported': []}
    except Exception as e:       # noqa
        return {'patch': 'benign-renamed-tree (generated)', 'status': 'inconclusive (renamed variant could not be analysed: %r)' % e, 'reported': []}
    status = ('silent (as required) on the tree with %d locals/parameters renamed' % n) if not new else 'FALSE-ALARM on a behaviour-preserving edit'
    return {'patch': 'benign-renamed-tree (generated)', 'status': status, 'reported': new[:6]}


def run_transformed_tree(pid, kind):
    """The check on a generated whole-tree variant (sa/benign.py TRANSFORMS): it must stay silent."""
    from .ctx import Check
    from . import benign
    label = 'benign-%s-tree (generated)' % kind
    try:
        ov, n = benign.transformed_tree(kind)
    except Exception as e:       # noqa
        return {'patch': label, 'status': 'inconclusive (variant could not be built: %r)' % e, 'reported': []}
    mod = importlib.import_module('props.' + pid)
    ck = Check(pid, tier='quick', level=getattr(mod, 'LEVEL', 'other'), repo=ov, quiet=True)
    try:
        mod.run(ck)
        ck.finish()
        new = [o.key for o in ck.result['new']]
    except AnalysisBroken as e:
        return {'patch': label, 'status': 'FALSE-ALARM on a behaviour-preserving edit', 'reported': ['analysis broken: ' + str(e)[:160]]}
    status = ('silent (as required) on the tree with %d %s' % (n, benign.TRANSFORMS[kind][1])) if not new else 'FALSE-ALARM on a behaviour-preserving edit'
    return {'patch': label, 'status': status, 'reported': new[:6]}


def run(ck, pid):
    patches = sorted(glob.glob(os.path.join(VERIF, 'selftest', pid, '*.patch')))
    if len(patches) > 1:
        from concurrent.futures import ProcessPoolExecutor
        with ProcessPoolExecutor(max_workers=min(8, len(patches))) as ex:
            results = list(ex.map(run_variant, [pid] * len(patches), patches))
    else:
        results = [run_variant(pid, p) for p in patches]
    results.append(run_renamed_tree(pid))
    for kind in ('noop', 'unbraced', 'mirrored', 'inverted', 'extracted'):
        results.append(run_transformed_tree(pid, kind))
    ck.extra['seeded_variants'] = results
    noisy = [r for r in results if r['status'].startswith('FALSE-ALARM')]
    if noisy:
        raise AnalysisBroken('checker self-validation failed: alarm on behaviour-preserving variant(s): %s'
                             % ', '.join('%s %s' % (r['patch'], r['reported'][:2]) for r in noisy))
    missed = [r for r in results if r['status'].startswith('MISSED')]
    if missed:
        raise AnalysisBroken('checker self-validation failed: seeded variant(s) not detected: %s'
                             % ', '.join(r['patch'] for r in missed))
    return results

// TSan driver for the EphemeralNet data-race candidates 1..5.
// Uses only the public API of ephemeralnet::Node (include/ephemeralnet/core/Node.hpp),
// the public protocol encoders and (for modes c2/c5) the project's own relay server.
//
//   driver c1 [seconds] [cooldown_s]   KeyManager::contexts_
//   driver c1r [seconds] [cooldown_s]  same, but the main thread never touches B (transport threads only)
//   driver c2 [seconds] [cooldown_s]   Node::handshake_state_ (accept thread vs relay worker thread)
//   driver c2b [seconds] [cooldown_s]  Node::handshake_state_ (accept thread vs serve-loop thread)
//   driver c3 [seconds]                SessionManager::Session::key
//   driver c4 [stun:0|1|2] [rounds] [warn]     Node::nat_status_ / config_.advertised_endpoints ...
//   driver c5 [seconds]                Node::relay_client_
#include "ephemeralnet/core/Node.hpp"
#include "ephemeralnet/network/NatTraversal.hpp"
#include "ephemeralnet/protocol/Manifest.hpp"
#include "ephemeralnet/protocol/Message.hpp"
#include "ephemeralnet/relay/EventLoop.hpp"
#include "ephemeralnet/relay/RelayServer.hpp"

#include <unistd.h>
#include <csignal>

#include <atomic>
#include <chrono>
#include <cstdio>
#include <cstdlib>
#include <memory>
#include <mutex>
#include <string>
#include <thread>
#include <vector>

using namespace std::chrono_literals;
using ephemeralnet::Config;
using ephemeralnet::Node;
using ephemeralnet::PeerId;
using Clock = std::chrono::steady_clock;

namespace {

const Clock::time_point g_t0 = Clock::now();
long long us_since_start(Clock::time_point t = Clock::now()) {
    return std::chrono::duration_cast<std::chrono::microseconds>(t - g_t0).count();
}
#define LOG(...) do { std::fprintf(stdout, "[driver %9lld us] ", us_since_start()); std::fprintf(stdout, __VA_ARGS__); std::fprintf(stdout, "\n"); std::fflush(stdout); } while (0)

PeerId make_peer_id(std::uint8_t seed) {
    PeerId id{};
    for (auto& b : id) b = seed++;
    return id;
}

Config make_config(std::uint32_t seed) {
    Config c{};
    c.identity_seed = seed;
    c.handshake_pow_difficulty = 0;
    c.announce_pow_difficulty = 0;
    c.store_pow_difficulty = 0;
    c.nat_stun_enabled = false;          // no network in the sandbox (c4 can turn it on again)
    c.control_host = "127.0.0.1";
    c.relay_enabled = false;
    c.key_rotation_interval = 5s;        // smallest value sanitize_config() accepts
    c.default_chunk_ttl = 120s;
    c.min_manifest_ttl = 30s;
    c.max_manifest_ttl = 600s;
    return c;
}

// The initiator must know the responder's key before it can connect (Node::build_transport_handshake
// uses session_shared_key()). This is what the tests do as well.
bool prime_initiator(Node& initiator, const Node& responder) {
    const auto work = responder.generate_handshake_work(initiator.id());
    if (!work) return false;
    return initiator.perform_handshake(responder.id(), responder.public_identity(), *work);
}

std::vector<std::uint8_t> signed_announce(Node& from, const PeerId& to, const ephemeralnet::protocol::Manifest& manifest,
                                          std::uint16_t from_port) {
    namespace proto = ephemeralnet::protocol;
    proto::Message m{};
    m.version = proto::kCurrentMessageVersion;
    m.type = proto::MessageType::Announce;
    proto::AnnouncePayload p{};
    p.chunk_id = manifest.chunk_id;
    p.peer_id = from.id();
    p.endpoint = "127.0.0.1:" + std::to_string(from_port);
    p.ttl = 60s;
    p.manifest_uri = proto::encode_manifest(manifest);
    m.payload = p;
    const auto key = from.session_key(to);
    if (!key) return {};
    return proto::encode_signed(m, std::span<const std::uint8_t>(key->data(), key->size()));
}

std::vector<std::uint8_t> signed_ack(Node& from, const PeerId& to) {
    namespace proto = ephemeralnet::protocol;
    proto::Message m{};
    m.version = proto::kCurrentMessageVersion;
    m.type = proto::MessageType::Acknowledge;
    proto::AcknowledgePayload p{};
    p.chunk_id.fill(0x11);
    p.peer_id = from.id();
    p.accepted = true;
    m.payload = p;
    const auto key = from.session_key(to);
    if (!key) return {};
    return proto::encode_signed(m, std::span<const std::uint8_t>(key->data(), key->size()));
}

struct Relay {
    ephemeralnet::relay::EventLoop loop;
    std::unique_ptr<ephemeralnet::relay::RelayServer> server;
    std::thread thread;
    std::uint16_t port{0};
    bool start(std::uint16_t p) {
        port = p;
        ephemeralnet::relay::RelayServerConfig rc;
        rc.listen_host = "127.0.0.1";
        rc.listen_port = p;
        server = std::make_unique<ephemeralnet::relay::RelayServer>(loop, rc);
        if (!server->start()) return false;
        thread = std::thread([this] { loop.run(); });
        return true;
    }
    ~Relay() {
        if (server) server->stop();
        loop.stop();
        if (thread.joinable()) thread.join();
    }
};

// ---------------------------------------------------------------------------------------------
// c1: KeyManager::contexts_
//   writers: B's accept thread   accept_loop -> handle_pending_handshake -> Node::handle_transport_handshake
//                                 -> Node::perform_handshake -> KeyManager::register_session_with_material
//   readers: serve-loop thread   B.tick() -> rotate_session_keys -> KeyManager::known_peers / rotate_if_needed,
//                                 B.session_key() -> KeyManager::current_key   (under the driver's node mutex only)
//            B's receive threads receive_loop -> handle_transport_message -> session_shared_key -> current_key
int run_c1(int seconds, int cooldown, bool serve_loop) {
    constexpr int kClients = 4;
    auto cfg_b = make_config(0xB0B0B0B0u);
    cfg_b.handshake_cooldown = std::chrono::seconds(cooldown);
    Node b(make_peer_id(0x10), cfg_b);
    b.start_transport(0);
    std::this_thread::sleep_for(100ms);
    const auto port = b.transport_port();
    LOG("c1: B listening on %u, cooldown=%ds", port, cooldown);

    std::vector<std::unique_ptr<Node>> clients;
    for (int i = 0; i < kClients; ++i) {
        clients.push_back(std::make_unique<Node>(make_peer_id(static_cast<std::uint8_t>(0x40 + 0x20 * i)),
                                                 make_config(0xC0000000u + i)));
        if (!prime_initiator(*clients.back(), b)) { LOG("prime failed"); return 1; }
    }

    std::atomic<bool> stop{false};
    std::atomic<int> connects{0}, sends{0};
    std::vector<std::thread> threads;
    for (int i = 0; i < kClients; ++i) {
        threads.emplace_back([&, i] {
            Node& c = *clients[i];
            // peers join one after the other: with the default handshake_cooldown only the FIRST handshake of a
            // peer inserts into contexts_, and it must overlap with traffic of the peers that joined earlier
            std::this_thread::sleep_for(std::chrono::milliseconds(400 * i));
            while (!stop.load()) {
                if (c.connect_peer(b.id(), "127.0.0.1", port)) {
                    connects.fetch_add(1);
                    const auto msg = signed_ack(c, b.id());
                    for (int k = 0; k < 3 && !stop.load(); ++k) {
                        if (c.send_secure(b.id(), msg)) sends.fetch_add(1);
                    }
                }
                std::this_thread::sleep_for(3ms);
            }
        });
    }

    std::mutex node_mutex;  // what the daemon's serve loop holds around every Node call
    const auto deadline = Clock::now() + std::chrono::seconds(seconds);
    std::size_t ticks = 0;
    while (Clock::now() < deadline) {
        if (serve_loop) {
            std::scoped_lock lock(node_mutex);
            b.tick();
            for (auto& c : clients) {
                (void)b.session_key(c->id());
            }
        }
        ++ticks;
        std::this_thread::sleep_for(1ms);
    }
    stop.store(true);
    for (auto& t : threads) t.join();
    LOG("c1: done ticks=%zu connects=%d sends=%d", ticks, connects.load(), sends.load());
    for (auto& c : clients) c->stop_transport();
    b.stop_transport();
    return 0;
}

// ---------------------------------------------------------------------------------------------
// c2: Node::handshake_state_ written by two transport threads of B at once.
//   SessionManager has ONE accept thread, so two direct inbound handshakes are serialised on it.
//   The second transport thread that runs Node::perform_handshake is the relay client's worker:
//   RelayClient::registration_loop -> register_with_endpoint -> SessionManager::adopt_inbound_socket
//   -> handle_pending_handshake -> Node::handle_transport_handshake -> Node::perform_handshake.
//   A connects directly (accept thread), C connects through the relay (relay worker thread).
int run_c2(int seconds, int cooldown) {
    const std::uint16_t relay_port = static_cast<std::uint16_t>(21000 + (::getpid() % 2000));
    Relay relay;
    if (!relay.start(relay_port)) { LOG("relay start failed"); return 1; }
    LOG("c2: relay on %u", relay_port);

    auto cfg_b = make_config(0xB0B0B0B0u);
    cfg_b.handshake_cooldown = std::chrono::seconds(cooldown);
    cfg_b.relay_enabled = true;
    cfg_b.relay_endpoints.push_back({"127.0.0.1", relay_port});
    Node b(make_peer_id(0x10), cfg_b);
    b.start_transport(0);
    std::this_thread::sleep_for(300ms);
    const auto port = b.transport_port();

    // B publishes a chunk; the manifest carries B's relay hint once B is registered at the relay.
    ephemeralnet::ChunkId chunk{};
    chunk.fill(0x5A);
    std::string uri;
    for (int attempt = 0; attempt < 50; ++attempt) {
        const auto manifest = b.store_chunk(chunk, ephemeralnet::ChunkData(64, 0xAB), 120s);
        bool has_relay = false;
        for (const auto& h : manifest.discovery_hints) has_relay |= (h.transport == "relay");
        if (has_relay) { uri = ephemeralnet::protocol::encode_manifest(manifest); break; }
        std::this_thread::sleep_for(100ms);
    }
    if (uri.empty()) { LOG("c2: B never registered at relay"); return 1; }
    LOG("c2: B listening on %u, manifest has relay hint, cooldown=%ds", port, cooldown);

    Node a(make_peer_id(0x40), make_config(0xA0A0A0A0u));
    auto cfg_c = make_config(0xC0C0C0C0u);
    cfg_c.relay_enabled = true;
    cfg_c.relay_endpoints.push_back({"127.0.0.1", relay_port});
    Node c(make_peer_id(0x80), cfg_c);   // transport of C is not started: it only dials out through the relay
    if (!prime_initiator(a, b) || !prime_initiator(c, b)) { LOG("prime failed"); return 1; }

    std::atomic<bool> stop{false};
    std::atomic<int> direct_ok{0}, relay_ok{0}, relay_fail{0};
    std::thread ta([&] {
        while (!stop.load()) {
            if (a.connect_peer(b.id(), "127.0.0.1", port)) direct_ok.fetch_add(1);
            std::this_thread::sleep_for(1ms);
        }
    });
    std::thread tc([&] {
        while (!stop.load()) {
            // empty host/port: Node::request_chunk falls through to relay_client_->connect_via_hint()
            if (c.request_chunk(b.id(), "", 0, uri)) relay_ok.fetch_add(1); else relay_fail.fetch_add(1);
            std::this_thread::sleep_for(5ms);
        }
    });

    std::this_thread::sleep_for(std::chrono::seconds(seconds));
    stop.store(true);
    ta.join();
    tc.join();
    LOG("c2: done direct_ok=%d relay_ok=%d relay_fail=%d", direct_ok.load(), relay_ok.load(), relay_fail.load());
    a.stop_transport();
    c.stop_transport();
    b.stop_transport();
    return 0;
}

// c2b: handshake_state_: accept thread (inbound handshake from A) vs the serve-loop thread calling
// B.perform_handshake(C) / B.last_handshake_success() under the driver's node mutex.
int run_c2b(int seconds, int cooldown) {
    auto cfg_b = make_config(0xB0B0B0B0u);
    cfg_b.handshake_cooldown = std::chrono::seconds(cooldown);
    Node b(make_peer_id(0x10), cfg_b);
    b.start_transport(0);
    std::this_thread::sleep_for(100ms);
    const auto port = b.transport_port();
    Node a(make_peer_id(0x40), make_config(0xA0A0A0A0u));
    Node c(make_peer_id(0x80), make_config(0xC0C0C0C0u));
    if (!prime_initiator(a, b)) return 1;
    const auto work_c = c.generate_handshake_work(b.id());
    std::atomic<bool> stop{false};
    std::thread ta([&] {
        while (!stop.load()) {
            a.connect_peer(b.id(), "127.0.0.1", port);
            std::this_thread::sleep_for(1ms);
        }
    });
    std::mutex node_mutex;
    const auto deadline = Clock::now() + std::chrono::seconds(seconds);
    while (Clock::now() < deadline) {
        {
            std::scoped_lock lock(node_mutex);
            b.perform_handshake(c.id(), c.public_identity(), *work_c);
            (void)b.last_handshake_success(a.id());
        }
        std::this_thread::sleep_for(1ms);
    }
    stop.store(true);
    ta.join();
    a.stop_transport();
    b.stop_transport();
    LOG("c2b: done");
    return 0;
}

// ---------------------------------------------------------------------------------------------
// c3: SessionManager::Session::key
//   writer: serve-loop thread B.tick() -> rotate_session_keys -> SessionManager::register_peer_key (sessions_mutex_)
//           (phase 2: B.send_secure() -> register_peer_key)
//   reader: B's receive thread for A, SessionManager::receive_loop "key.bytes = session->key" (no lock)
int run_c3(int seconds) {
    Node b(make_peer_id(0x10), make_config(0xB0B0B0B0u));
    b.start_transport(0);
    std::this_thread::sleep_for(100ms);
    const auto port = b.transport_port();
    Node a(make_peer_id(0x40), make_config(0xA0A0A0A0u));
    a.start_transport(0);
    if (!prime_initiator(a, b)) return 1;
    if (!a.connect_peer(b.id(), "127.0.0.1", port)) { LOG("c3: connect failed"); return 1; }
    std::this_thread::sleep_for(100ms);
    LOG("c3: A connected to B, B sessions=%zu", b.connected_peer_count());

    std::atomic<bool> stop{false};
    std::atomic<int> sends{0};
    const auto msg = signed_ack(a, b.id());
    std::thread ta([&] {   // keeps B's receive_loop for A busy so it re-reads session->key for every frame
        while (!stop.load()) {
            if (a.send_secure(b.id(), msg)) sends.fetch_add(1);
            std::this_thread::sleep_for(1ms);
        }
    });

    std::mutex node_mutex;
    const auto start = Clock::now();
    const auto deadline = start + std::chrono::seconds(seconds);
    const auto before = b.session_key(a.id());
    bool rotated_logged = false;
    const std::vector<std::uint8_t> ping{1, 2, 3, 4};
    while (Clock::now() < deadline) {
        {
            std::scoped_lock lock(node_mutex);
            b.tick();
            if (!rotated_logged && b.session_key(a.id()) != before) {
                LOG("c3: B.tick() rotated the key for A (rotate_session_keys -> register_peer_key)");
                rotated_logged = true;
            }
            if (Clock::now() - start > std::chrono::seconds(seconds) - 1s) {
                b.send_secure(a.id(), ping);   // phase 2: send path also calls register_peer_key
            }
        }
        std::this_thread::sleep_for(2ms);
    }
    stop.store(true);
    ta.join();
    LOG("c3: done sends=%d rotated=%d", sends.load(), rotated_logged ? 1 : 0);
    a.stop_transport();
    b.stop_transport();
    return 0;
}

// ---------------------------------------------------------------------------------------------
// c4: Node::nat_status_, config_.advertised_endpoints / auto_advertise_candidates / auto_advertise_conflict
//   writer: thread calling B.start_transport(): after sessions_.start() has spawned the accept thread it runs
//           nat_status_ = nat_manager_.coordinate(...) and refresh_advertised_endpoints()
//   reader: B's receive thread: receive_loop -> handle_transport_message -> handle_announce -> broadcast_manifest
//           -> preferred_control_endpoints -> self_endpoint
//   A dials B's (fixed, well-known) port in a tight loop and sends one Announce as soon as the listener accepts.
//   stun=0: nat_stun_enabled=false.  stun=1: project default (real STUN code; in this sandbox DNS fails within ~20 ms).
//   stun=2: STUN enabled, and NatTraversalManager's own test hook simulates a STUN server that answers after 300 ms
//           (what the real query costs with a network), so the window between "listener open" and "nat_status_ /
//           advertised endpoints written" has its realistic width.
int run_c4(int stun, int rounds, bool warn_mode) {
    ephemeralnet::network::NatTraversalManager::TestHooks nat_hooks;
    if (stun == 2) {
        nat_hooks.stun_override = []() -> std::optional<ephemeralnet::network::NatTraversalManager::StunQueryResult> {
            std::this_thread::sleep_for(300ms);
            return ephemeralnet::network::NatTraversalManager::StunQueryResult{"203.0.113.7", 0, "stun.simulated:3478"};
        };
        ephemeralnet::network::NatTraversalManager::set_test_hooks(&nat_hooks);
    }
    Node a(make_peer_id(0x40), make_config(0xA0A0A0A0u));
    a.start_transport(0);
    std::this_thread::sleep_for(50ms);
    const auto a_port = a.transport_port();
    ephemeralnet::ChunkId chunk{};
    chunk.fill(0x6B);
    const auto manifest = a.store_chunk(chunk, ephemeralnet::ChunkData(64, 0xCD), 300s);

    for (int round = 0; round < rounds; ++round) {
        const std::uint16_t port = static_cast<std::uint16_t>(23000 + (::getpid() % 2000) + round);  // below the ephemeral port range
        auto cfg_b = make_config(0xB0B0B0B0u);
        cfg_b.nat_stun_enabled = stun != 0;       // project default is true
        cfg_b.advertise_allow_private = true;
        if (warn_mode) {
            // --advertise-auto warn: preferred_control_endpoints() then also reads config_.auto_advertise_conflict
            cfg_b.advertise_auto_mode = Config::AdvertiseAutoMode::Warn;
        }
        Node b(make_peer_id(0x10), cfg_b);
        std::atomic<long long> handled_at{-1};
        b.set_message_handler([&](const ephemeralnet::network::TransportMessage&) {
            // runs on B's receive thread right after Node::handle_transport_message returned
            long long expected = -1;
            handled_at.compare_exchange_strong(expected, us_since_start());
        });
        if (!prime_initiator(a, b)) return 1;
        const auto announce = signed_announce(a, b.id(), manifest, a_port);

        std::atomic<bool> stop{false};
        std::atomic<long long> sent_at{-1};
        std::thread ta([&] {
            while (!stop.load()) {
                if (a.connect_peer(b.id(), "127.0.0.1", port)) {
                    if (a.send_secure(b.id(), announce)) sent_at.store(us_since_start());
                    return;
                }
                std::this_thread::yield();
            }
        });

        const auto t_begin = us_since_start();
        b.start_transport(port);
        const auto t_end = us_since_start();
        // the starting thread does nothing else with B (no lock is taken that could order it with the reader)
        for (int i = 0; i < 300 && handled_at.load() < 0; ++i) std::this_thread::sleep_for(10ms);
        stop.store(true);
        ta.join();
        LOG("c4: round %d stun=%d start_transport() ran %lld..%lld us; announce sent at %lld us, handled by B's receive thread at %lld us => %s",
            round, stun, t_begin, t_end, sent_at.load(), handled_at.load(),
            (handled_at.load() >= 0 && handled_at.load() < t_end) ? "handled WHILE start_transport() was still running"
                                                                    : "handled after start_transport() returned");
        b.stop_transport();
    }
    a.stop_transport();
    return 0;
}

// ---------------------------------------------------------------------------------------------
// c5: Node::relay_client_ : Node::stop_transport() on one thread while another thread is inside
//   Node::request_chunk -> relay_client_->connect_via_hint().
int run_c5(int seconds) {
    const std::uint16_t relay_port = static_cast<std::uint16_t>(25000 + (::getpid() % 2000));
    Relay relay;
    if (!relay.start(relay_port)) return 1;
    auto cfg_b = make_config(0xB0B0B0B0u);
    cfg_b.relay_enabled = true;
    cfg_b.relay_endpoints.push_back({"127.0.0.1", relay_port});
    Node b(make_peer_id(0x10), cfg_b);
    b.start_transport(0);
    ephemeralnet::ChunkId chunk{};
    chunk.fill(0x5A);
    std::string uri;
    for (int attempt = 0; attempt < 50; ++attempt) {
        const auto manifest = b.store_chunk(chunk, ephemeralnet::ChunkData(64, 0xAB), 120s);
        bool has_relay = false;
        for (const auto& h : manifest.discovery_hints) has_relay |= (h.transport == "relay");
        if (has_relay) { uri = ephemeralnet::protocol::encode_manifest(manifest); break; }
        std::this_thread::sleep_for(100ms);
    }
    if (uri.empty()) { LOG("c5: B never registered"); return 1; }

    auto cfg_c = make_config(0xC0C0C0C0u);
    cfg_c.relay_enabled = true;
    cfg_c.relay_endpoints.push_back({"127.0.0.1", relay_port});
    Node c(make_peer_id(0x80), cfg_c);
    c.start_transport(0);    // starts C's relay client worker too
    if (!prime_initiator(c, b)) return 1;

    std::atomic<bool> stop{false};
    std::atomic<int> ok{0}, fail{0};
    std::vector<std::thread> threads;
    for (int i = 0; i < 2; ++i) {
        threads.emplace_back([&] {
            while (!stop.load()) {
                if (c.request_chunk(b.id(), "", 0, uri)) ok.fetch_add(1); else fail.fetch_add(1);
                std::this_thread::sleep_for(2ms);
            }
        });
    }
    const auto deadline = Clock::now() + std::chrono::seconds(seconds);
    std::mutex node_mutex;
    int stops = 0;
    while (Clock::now() < deadline) {
        std::this_thread::sleep_for(200ms);
        std::scoped_lock lock(node_mutex);
        c.stop_transport();
        ++stops;
        c.start_transport(0);
    }
    stop.store(true);
    for (auto& t : threads) t.join();
    LOG("c5: done request ok=%d fail=%d stop/start cycles=%d", ok.load(), fail.load(), stops);
    c.stop_transport();
    b.stop_transport();
    return 0;
}

}  // namespace

int main(int argc, char** argv) {
    std::signal(SIGPIPE, SIG_IGN);   // peers close sockets under us; SessionManager::send_all uses plain send()
    const std::string mode = argc > 1 ? argv[1] : "c1";
    const int p1 = argc > 2 ? std::atoi(argv[2]) : -1;
    const int p2 = argc > 3 ? std::atoi(argv[3]) : -1;
    if (mode == "c1") return run_c1(p1 < 0 ? 3 : p1, p2 < 0 ? 5 : p2, true);
    if (mode == "c1r") return run_c1(p1 < 0 ? 3 : p1, p2 < 0 ? 5 : p2, false);  // transport threads only
    if (mode == "c2") return run_c2(p1 < 0 ? 4 : p1, p2 < 0 ? 5 : p2);
    if (mode == "c2b") return run_c2b(p1 < 0 ? 2 : p1, p2 < 0 ? 5 : p2);
    if (mode == "c3") return run_c3(p1 < 0 ? 8 : p1);
    if (mode == "c4") return run_c4(p1 < 0 ? 1 : p1, p2 < 0 ? 3 : p2, argc > 4 && std::string(argv[4]) == "warn");
    if (mode == "c5") return run_c5(p1 < 0 ? 3 : p1);
    std::fprintf(stderr, "unknown mode\n");
    return 2;
}
